package main

import (
	"fmt"
	"io/ioutil"
	"os"
	"os/exec"
	"path/filepath"
	"regexp"
	"sort"
	"strconv"
	"strings"
	"sync"

	"potano.layercake/fs"
	"potano.layercake/portage/vdb"
	"potano.layercake/stage"
)

// C17: add-files lines and recipe lines.  Structured stream: lines built from the
// documented grammar (type x options x quoting styles x octal/symbolic modes) with the
// generator's intended fields carried along; malformed stream: byte mutations and raw
// byte strings.  File level: ReadUserFileList on a scratch tree (wildcard add/omit) and
// the stagemaker binary with -recipe.

// ---- error classes (told from the message text where this table knows it) ----

func c17class(msg string) string {
	hp := strings.HasPrefix
	hs := strings.HasSuffix
	switch {
	case msg == "no file type":
		return "no-type"
	case hp(msg, "unknown file type "):
		return "unknown-type"
	case msg == "no file name":
		return "no-name"
	case hp(msg, "name '") && hs(msg, "' is not absolute"):
		return "not-absolute"
	case msg == "zero-length file name":
		return "zero-length-name"
	case hp(msg, "could not parse option "):
		return "bad-option"
	case hp(msg, "cannot use "):
		return "opt-forbidden"
	case msg == "multiple settings of file permissions":
		return "multiple-perm"
	case hp(msg, "bad mode setting "), hp(msg, "strconv.ParseInt"):
		return "badmode"
	case msg == "invalid UID/GID":
		return "baduid"
	case msg == "duplicate setting of source":
		return "dup-source"
	case msg == "filename cannot have wildcard when src= option given":
		return "wildcard-with-src"
	case hp(msg, "could not parse device ID "):
		return "baddev"
	case hp(msg, "symlink target ") && hs(msg, " is a wildcard"):
		return "target-wildcard"
	case msg == "illegal value for absent= option":
		return "bad-absent"
	case hp(msg, "unknown option "):
		return "unknown-option"
	case hp(msg, "no matching files for "):
		return "no-match"
	case hp(msg, "no file found to determine type of "):
		return "no-file-for-type"
	case hp(msg, "file ") && strings.Contains(msg, " does not exist (source of "):
		return "missing-source"
	case strings.Contains(msg, " has file type "):
		return "type-mismatch"
	case hs(msg, " has a wildcard parent directory"):
		return "wildcard-parent"
	case hs(msg, " does not exist"):
		return "not-in-list"
	}
	// a message this table does not know (reworded, or new): the class is not told from the
	// text; the comparison with the model accepts any class in its place (the property asks for
	// an error with file and line, not for a wording)
	return unclassified
}

var c17loc = regexp.MustCompile(`(?s)^(.*) in ([^ ]+) line (\d+)$`)

// splitLocated splits "<msg> in <file> line <n>"; ok=false when the location is missing
// or names another file.
func splitLocated(full, file string) (msg string, line int, ok bool) {
	m := c17loc.FindStringSubmatch(full)
	if m == nil || m[2] != file {
		return full, 0, false
	}
	n, _ := strconv.Atoi(m[3])
	return m[1], n, true
}

// ---- quoting (generator side; Lc.Spec.AddFiles.renderField is the Lean counterpart) ----

func isSpecialByte(c byte) bool { return c == ' ' || c == '\t' || c == '"' || c == '\'' || c == '\\' }

func renderField(style int, f string) string {
	var b strings.Builder
	switch style {
	case 1, 2:
		q := byte('"')
		if style == 2 {
			q = '\''
		}
		b.WriteByte(q)
		for i := 0; i < len(f); i++ {
			if f[i] == q || f[i] == '\\' {
				b.WriteByte('\\')
			}
			b.WriteByte(f[i])
		}
		b.WriteByte(q)
	case 3: // backslash style, but the documented `\*` is written as the user would
		for i := 0; i < len(f); i++ {
			if f[i] == '\\' && i+1 < len(f) && f[i+1] == '*' {
				b.WriteString("\\*")
				i++
				continue
			}
			if isSpecialByte(f[i]) {
				b.WriteByte('\\')
			}
			b.WriteByte(f[i])
		}
	default:
		for i := 0; i < len(f); i++ {
			if isSpecialByte(f[i]) {
				b.WriteByte('\\')
			}
			b.WriteByte(f[i])
		}
	}
	return b.String()
}

var c17elems = []string{"etc", "usr", "a b", "it's", "q\"uote", "back\\slash", "tab\there", "\xc3\xa9t\xc3\xa9",
	"star\\*lit", "%s%d", "x=y", "#h", "p.conf", "\xff\xfe", "tr ", "dq\"'sq", "\\\\", "a", "$$stageroot"}
var c17wild = []string{"*", "a*", "*.conf", "a*b*", "\\**"}

func genName(g *Gen) string {
	n := 1 + g.Intn(3)
	parts := make([]string, n)
	for i := range parts {
		parts[i] = c17elems[g.Intn(len(c17elems))]
		if g.Chance(1, 10) {
			parts[i] = g.From("ab \\*'\"\t/.", 1+g.Intn(4))
		}
	}
	if g.Chance(1, 4) {
		parts[n-1] = c17wild[g.Intn(len(c17wild))]
	}
	if g.Chance(1, 20) && n > 1 {
		parts[0] = c17wild[g.Intn(len(c17wild))] // wildcard parent: refused
	}
	if g.Chance(1, 8) { // a name that is not a clean path: cleaned when the line is read
		k := g.Intn(n + 1)
		parts = append(parts[:k], append([]string{g.Pick(".", "..", "", "", "...")}, parts[k:]...)...)
	}
	s := "/" + strings.Join(parts, "/")
	if g.Chance(1, 25) {
		s = strings.TrimPrefix(s, "/")
	}
	return s
}

func genSymbolicMode(g *Gen) string {
	n := 1 + g.Intn(3)
	cl := make([]string, n)
	for i := range cl {
		who := ""
		switch g.Intn(8) {
		case 0:
		case 1:
			who = g.From("ugoa", 2)
		default:
			who = g.From("ugoa", 1)
		}
		acts := 1
		if g.Chance(1, 8) {
			acts = 2
		}
		s := who
		for k := 0; k < acts; k++ {
			op := g.Pick("+", "-", "+", "-", "=")
			if g.Chance(1, 12) {
				op = ""
			}
			perms := g.From("rwxst", g.Intn(4))
			if g.Chance(1, 12) {
				perms = g.From("rwxstX", 1+g.Intn(3))
			}
			if g.Chance(1, 20) {
				perms = g.Pick("u", "g", "o")
			}
			s += op + perms
		}
		cl[i] = s
	}
	s := strings.Join(cl, ",")
	if g.Chance(1, 25) {
		s += ","
	}
	return s
}

func genModValue(g *Gen) string {
	switch g.Intn(10) {
	case 0, 1, 2:
		return g.Pick("644", "0755", "7777", "0", "00644", "4755", "1777", "600", "07777")
	case 3:
		return g.Pick("10000", "8", "77777777777", "777777777777777777777777", "", "0x1ff", "rwx", "u", ",", "u+r,", "+", "a=", "-", "ug", "t")
	case 4:
		return g.From("01234567", 1+g.Intn(6))
	default:
		return genSymbolicMode(g)
	}
}

func genOptValue(g *Gen, key string) string {
	switch key {
	case "mod":
		return genModValue(g)
	case "uid", "gid":
		return g.Pick("0", "7", "1000", "65534", "2147483647", "2147483648", "4294967295", "4294967296", "1:2", "0:0",
			"250:250", "x", "-1", "-0", "+5", "", "1:", ":1", "1:2:3", "99999999999999999999", "12a", "1 2", "007")
	case "src":
		return g.Pick("/x", "rel/path", "$$stageroot/home/u", "/with space/f", "a*", "/p*/x", "", "/dev/null", "it's", "/a\\*b")
	case "dev":
		return g.Pick("c4:7", "b8:0", "c4:255", "c4:256", "c4294967295:1", "c4294967296:0", "x1:2", "c1", "c1:2:3", "c:1",
			"b1:", "", "c+1:2", "b08:010", "c1:4294967296", "C1:2", "c 1:2", "c1:70000")
	case "targ":
		return g.Pick("/var/db", "../rel", "with space", "a*b", "lit\\*", "/t", "", "x/*/y")
	case "absent":
		return g.Pick("skip", "skip", "skip", "jump", "", "Skip")
	}
	return g.Pick("1", "x", "")
}

var c17types = []string{"file", "dir", "node", "symlink", "tbd", "omit"}
var c17opts = []string{"mod", "uid", "gid", "src", "dev", "targ", "absent"}
var c17allowed = map[string][]string{
	"file": {"mod", "uid", "gid", "src", "absent"}, "dir": {"mod", "uid", "gid", "src", "absent"},
	"node": {"mod", "uid", "gid", "dev", "src", "absent"}, "symlink": {"targ", "absent"},
	"tbd": {"absent"}, "omit": {},
}

type genLine struct {
	Type, Name string
	Opts       [][2]string
}

func genStructured(g *Gen) genLine {
	gl := genLine{Type: c17types[g.Intn(len(c17types))], Name: genName(g)}
	if g.Chance(1, 30) {
		gl.Type = g.Pick("fifo", "File", "link", "f")
	}
	for k := g.Intn(4); k > 0; k-- {
		var key string
		al := c17allowed[gl.Type]
		if len(al) > 0 && g.Chance(4, 5) {
			key = al[g.Intn(len(al))]
		} else {
			key = c17opts[g.Intn(len(c17opts))]
		}
		if g.Chance(1, 40) {
			key = g.Pick("mode", "user", "MOD", "source")
		}
		gl.Opts = append(gl.Opts, [2]string{key, genOptValue(g, key)})
	}
	return gl
}

func (gl genLine) fields() []string {
	f := []string{gl.Type, gl.Name}
	for _, o := range gl.Opts {
		f = append(f, o[0]+"="+o[1])
	}
	return f
}

func (gl genLine) json() map[string]interface{} {
	opts := []interface{}{}
	for _, o := range gl.Opts {
		opts = append(opts, []interface{}{hx(o[0]), hx(o[1])})
	}
	return obj("type", hx(gl.Type), "name", hx(gl.Name), "opts", opts)
}

// renderLine joins fields with generator-chosen styles and separators; canonical = single
// blanks and styles 0-2 only (then Lc.Spec.AddFiles.renderLine must give the same bytes).
func renderLine(g *Gen, fields []string, canonical bool) (string, []interface{}) {
	styles := make([]interface{}, len(fields))
	var b strings.Builder
	if !canonical && g.Chance(1, 4) {
		b.WriteString(g.Pick(" ", "\t", "  "))
	}
	for i, f := range fields {
		st := g.Intn(3)
		if !canonical && g.Chance(1, 3) {
			st = 3
		}
		styles[i] = float64(st)
		if i > 0 {
			if canonical {
				b.WriteByte(' ')
			} else {
				b.WriteString(g.Pick(" ", " ", "\t", "  ", " \t "))
			}
		}
		b.WriteString(renderField(st, f))
	}
	if !canonical && g.Chance(1, 4) {
		b.WriteString(g.Pick(" ", "\t"))
	}
	return b.String(), styles
}

func mutateLine(g *Gen, s string) string {
	b := []byte(s)
	for k := 1 + g.Intn(2); k > 0; k-- {
		if len(b) == 0 {
			b = append(b, '\\')
			continue
		}
		p := g.Intn(len(b))
		switch g.Intn(6) {
		case 0:
			b = append(b[:p], b[p+1:]...)
		case 1:
			const alph = "\\\"' *=%\x00\xff\t/,"
			b[p] = alph[g.Intn(len(alph))]
		case 2:
			b = b[:p]
		case 3:
			b = append(b[:p], append([]byte(g.Pick("\\", "\"", "'", " ", "*", "=", "%s", "%", "\\*", "\x00")), b[p:]...)...)
		case 4:
			b[p] = byte(g.Intn(256))
		case 5:
			b = append(b, '\\')
		}
	}
	return string(b)
}

// ---- running the implementation ----

func cursorAtLine(file string, n int) *fs.TextInputCursor {
	c := fs.NewTextInputCursor(file, strings.NewReader(strings.Repeat("\n", n)))
	var s string
	for i := 0; i < n; i++ {
		c.ReadLine(&s)
	}
	return c
}

func observeParseLine(line string) interface{} {
	const file, lineno = "af.txt", 7
	c := cursorAtLine(file, lineno)
	v := stage.VerifParseLine(line, c)
	msgs := c.GetMessages()
	if v.Ok != (len(msgs) == 0) {
		return obj("cls", "inconsistent-ok")
	}
	if !v.Ok {
		classes := []interface{}{}
		located := true
		for _, m := range msgs {
			body, n, ok := splitLocated(m, file)
			if !ok || n != lineno {
				located = false
			}
			classes = append(classes, c17class(body))
		}
		return obj("cls", "err", "errors", classes, "located", located)
	}
	return obj("cls", "ok", "adding", v.Adding, "ltype", int(v.Ltype), "name", hx(v.Name), "source", hx(v.Source),
		"target", hx(v.Target), "gid", int64(v.Gid), "uid", int64(v.Uid), "and", int64(v.AndMask), "or", int64(v.OrMask),
		"major", int64(v.Major), "minor", int64(v.Minor), "devtype", int(v.Devtype), "wild", v.HasWildcard,
		"hasGid", v.HasGid, "hasUid", v.HasUid, "hasDev", v.HasDev, "hasPerm", v.HasPerm, "skip", v.Skip)
}

var c17treeOnce sync.Once
var c17treeRoot string
var c17files = []string{"/d/a1", "/d/a2", "/d/b1", "/d/a*b", "/d/x.conf", "/d/y.conf", "/d/sub/s1", "/d/sub/s2",
	"/d/sub/deep/z", "/e/only", "/d/sp ace"}
var c17dirs = []string{"/d", "/d/sub", "/d/sub/deep", "/e"}

// a second tree: some directories have names that look like glob patterns; the recursive
// expansion of a `dir` wildcard line must take them literally
var c17filesG = append(append([]string{}, c17files...), "/d/sub/site[1]/in", "/d/sub/odd[n/x y", "/d/sub/deep/q?/f")
var c17dirsG = append(append([]string{}, c17dirs...), "/d/sub/site[1]", "/d/sub/odd[n", "/d/sub/deep/q?")

func c17scratch() string {
	base := os.Getenv("VERIF_SCRATCH")
	if base == "" {
		base = os.TempDir()
	}
	return base
}

func c17tree() string {
	c17treeOnce.Do(func() { c17treeRoot = c17treeFor(c17files, c17dirs) })
	return c17treeRoot
}

var c17trees = map[string]string{}
var c17treesMu sync.Mutex

// c17treeFor: the scratch tree a case describes (its files and directories), made once per
// distinct description
func c17treeFor(files, dirs []string) string {
	key := strings.Join(files, "\x00") + "\x01" + strings.Join(dirs, "\x00")
	c17treesMu.Lock()
	defer c17treesMu.Unlock()
	if r, ok := c17trees[key]; ok {
		return r
	}
	root, err := ioutil.TempDir(c17scratch(), "c17tree")
	if err != nil {
		panic(err)
	}
	for _, d := range dirs {
		os.MkdirAll(root+d, 0755)
	}
	for _, f := range files {
		os.MkdirAll(filepath.Dir(root+f), 0755)
		ioutil.WriteFile(root+f, []byte("x"), 0644)
	}
	c17trees[key] = root
	return root
}

// c17slash stands for the scratch tree's own path in cases whose build root is "/" itself (the
// stage of the running system): the names in such a case are host paths below the scratch tree
const c17slash = "/@R"

func observeUserList(pre, lines []string, slashRoot bool, files, dirs []string) interface{} {
	root := c17tree()
	if len(files)+len(dirs) > 0 {
		strip := func(xs []string) []string {
			out := []string{}
			for _, x := range xs {
				if x = strings.TrimPrefix(x, c17slash); x != "" {
					out = append(out, x)
				}
			}
			return out
		}
		root = c17treeFor(strip(files), strip(dirs))
	}
	const file = "addf"
	if slashRoot {
		for i := range pre {
			pre[i] = strings.ReplaceAll(pre[i], c17slash, root)
		}
		for i := range lines {
			lines[i] = strings.ReplaceAll(lines[i], c17slash, root)
		}
	}
	fi := []vdb.FileInfo{}
	for _, p := range pre {
		fi = append(fi, vdb.FileInfo{Name: p})
	}
	treeRoot := root
	if slashRoot {
		treeRoot = "/"
	}
	fl, err := stage.GenerateFileList(fi, treeRoot)
	if err != nil {
		return obj("cls", "err:generate")
	}
	c := fs.NewTextInputCursor(file, strings.NewReader(strings.Join(lines, "\n")+"\n"))
	fl.ReadUserFileList(c)
	errs := []interface{}{}
	located := true
	for _, m := range c.GetMessages() {
		body, n, ok := splitLocated(m, file)
		if !ok {
			located = false
		}
		errs = append(errs, []interface{}{n, c17class(body)})
	}
	names := fl.VerifEntryNames()
	if slashRoot {
		for i, n := range names {
			switch {
			case strings.HasPrefix(n, root):
				names[i] = c17slash + n[len(root):]
			case strings.HasPrefix(n, root[1:]): // a name that lost its leading slash
				names[i] = c17slash[1:] + n[len(root)-1:]
			}
		}
		sort.Strings(names)
	}
	return obj("cls", "ok", "names", hxs(names), "errors", errs, "located", located)
}

var c17rootsOnce sync.Once
var c17rootA, c17rootB string

func c17roots() {
	c17rootsOnce.Do(func() {
		base, err := ioutil.TempDir(c17scratch(), "c17roots")
		if err != nil {
			panic(err)
		}
		mk := func(name, atom string) string {
			r := filepath.Join(base, name)
			os.MkdirAll(r+"/etc/portage/make.profile", 0755)
			ioutil.WriteFile(r+"/etc/portage/make.profile/packages", []byte("*app-misc/"+atom+"\n"), 0644)
			for _, n := range []string{"alpha", "beta", "extra", "other"} {
				d := r + "/var/db/pkg/app-misc/" + n + "-1.0"
				os.MkdirAll(d, 0755)
				ioutil.WriteFile(d+"/SLOT", []byte("0\n"), 0644)
				ioutil.WriteFile(d+"/CONTENTS", []byte(""), 0644)
			}
			return r
		}
		c17rootA = mk("rA", "alpha")
		c17rootB = mk("rB", "beta")
	})
}

var c17lineNo = regexp.MustCompile(` line (\d+)$`)

func observeRecipe(lines []string, cmdRoot bool) interface{} {
	bin := os.Getenv("VERIF_STAGEMAKER")
	if bin == "" {
		return obj("harness-error", "VERIF_STAGEMAKER not set")
	}
	c17roots()
	text := strings.Join(lines, "\n") + "\n"
	text = strings.Replace(strings.Replace(text, "@A", c17rootA, -1), "@B", c17rootB, -1)
	f, err := ioutil.TempFile(c17scratch(), "recipe")
	if err != nil {
		return obj("harness-error", err.Error())
	}
	defer os.Remove(f.Name())
	f.WriteString(text)
	f.Close()
	args := []string{"-list", "system", "-recipe", f.Name()}
	if cmdRoot {
		args = append(args, "-root", c17rootB)
	}
	cmd := exec.Command(bin, args...)
	cmd.Dir = c17rootA
	var so, se strings.Builder
	cmd.Stdout, cmd.Stderr = &so, &se
	err = cmd.Run()
	code := 0
	if err != nil {
		code = 1
		if ee, ok := err.(*exec.ExitError); ok {
			code = ee.ExitCode()
		}
	}
	atoms := []string{}
	errlines := []interface{}{}
	if code == 0 {
		for _, l := range strings.Split(strings.TrimSpace(so.String()), "\n") {
			if l != "" {
				atoms = append(atoms, l)
			}
		}
		sort.Strings(atoms)
	} else {
		for _, l := range strings.Split(strings.TrimSpace(se.String()), "\n") {
			if m := c17lineNo.FindStringSubmatch(l); m != nil && strings.Contains(l, " in "+f.Name()+" line ") {
				n, _ := strconv.Atoi(m[1])
				errlines = append(errlines, n)
			}
		}
	}
	return obj("exit", code, "atoms", hxs(atoms), "errlines", errlines)
}

func genRecipe(g *Gen) ([]string, bool) {
	lines := []string{}
	used := map[string]bool{}
	n := 1 + g.Intn(5)
	for i := 0; i < n; i++ {
		var l string
		switch g.Intn(12) {
		case 0, 1:
			l = "root " + g.Pick("@A", "@B")
		case 2:
			l = "profile " + g.Pick("@A", "@B") + "/etc/portage/make.profile"
		case 3, 4, 5:
			at := []string{}
			for _, a := range []string{"app-misc/extra", "app-misc/other"} {
				if !used[a] && g.Chance(1, 2) {
					used[a] = true
					at = append(at, a)
				}
			}
			l = "atoms" + g.Pick(" ", "\t", "  ") + strings.Join(at, g.Pick(" ", "  "))
		case 6:
			l = g.Pick("nobdeps", "novdb", "emptydev", "compress gzip")
		case 7:
			l = g.Pick("# comment", "", "// c", "   ", "\t# x")
		case 8:
			if g.Chance(1, 2) {
				l = g.Pick("bogus keyword", "rooot @A", "Atoms x", "no%sbdeps", "=", "atoms=app-misc/extra")
			} else {
				l = g.Pick("root", "profile", "atoms", "compress", "atomsfile", "addfiles")
			}
		default:
			l = g.Pick("nobdeps", "novdb", "emptydev")
		}
		if g.Chance(1, 3) {
			l = g.Pick(" ", "  ", "\t", " \t") + l
		}
		if g.Chance(1, 5) {
			l += g.Pick(" ", "\t")
		}
		lines = append(lines, l)
	}
	return lines, g.Chance(1, 4)
}

func genUserList(g *Gen, prefix string) ([]string, []string) {
	all := append(append([]string{}, c17files...), c17dirs...)
	pre := []string{}
	for _, p := range all {
		if g.Chance(1, 3) {
			pre = append(pre, prefix+p)
		}
	}
	names := []string{"/d/a1", "/d/b1", "/d/missing", "/d/sub", "/d/sub/s1", "/e", "/e/only", "/d/a\\*b", "/d/x.conf", "/d/sp ace",
		"/d/a*", "/d/*.conf", "/d/*", "/d/zz*", "/d/sub/*", "/d/s*", "/e/*", "/*", "/d/a\\**", "/d/*1", "/d/sub/d*", "/new/dir",
		"/d//a1", "/d/./b1", "/d/sub/../a1", "/d/sub/", "//", "/.", "/d/..", "/d/sub/..//s*", "/new//dir/"}
	lines := []string{}
	for k := 1 + g.Intn(4); k > 0; k-- {
		if g.Chance(1, 8) {
			lines = append(lines, g.Pick("# c", "", "  ", "// x", "bogus /d/a1", "file d/a1", "file /d/a1 mod=u=r"))
			continue
		}
		ty := g.Pick("file", "dir", "tbd", "omit", "omit", "file")
		nm := prefix + names[g.Intn(len(names))]
		f := []string{ty, nm}
		if ty != "omit" && g.Chance(1, 3) {
			f = append(f, "absent=skip")
		}
		l, _ := renderLine(g, f, false)
		lines = append(lines, l)
	}
	return pre, lines
}

func init() {
	ops["stage.parsefields"] = func(c Case) interface{} {
		f, err := stage.VerifParseFields(unhx(c["line"]))
		if err != nil {
			switch err.Error() {
			case "unclosed quoted string":
				return obj("cls", "err:unclosed-quote")
			case "backslash at end of line":
				return obj("cls", "err:trailing-backslash")
			}
			return obj("cls", "err:other")
		}
		return obj("cls", "ok", "fields", hxs(f))
	}
	ops["stage.parseline"] = func(c Case) interface{} { return observeParseLine(unhx(c["line"])) }
	ops["stage.modstring"] = func(c Case) interface{} {
		a, o, err := stage.VerifParseModString(unhx(c["s"]))
		if err != nil {
			return obj("cls", "err")
		}
		return obj("cls", "ok", "and", int64(a), "or", int64(o))
	}
	ops["stage.uid"] = func(c Case) interface{} {
		v1, v2, err := stage.VerifParseUid(unhx(c["s"]))
		if err != nil {
			return obj("cls", "err")
		}
		if v2 < 0 {
			return obj("cls", "ok", "v1", v1, "v2", 0, "pair", false)
		}
		return obj("cls", "ok", "v1", v1, "v2", v2, "pair", true)
	}
	ops["stage.dev"] = func(c Case) interface{} {
		t, mj, mn, err := stage.VerifParseDev(unhx(c["s"]))
		if err != nil {
			return obj("cls", "err", "devtype", int(t))
		}
		return obj("cls", "ok", "devtype", int(t), "major", int64(mj), "minor", int64(mn))
	}
	ops["stage.userlist"] = func(c Case) interface{} {
		b, _ := c["slashroot"].(bool)
		return observeUserList(unhxs(c["pre"]), unhxs(c["lines"]), b, unhxs(c["files"]), unhxs(c["dirs"]))
	}
	ops["sm.recipe"] = func(c Case) interface{} {
		b, _ := c["cmd_root"].(bool)
		return observeRecipe(unhxs(c["lines"]), b)
	}

	register("c17", func(g *Gen, tier string, emit func(Case)) {
		n := 700
		if tier == "thorough" {
			n = 60000
		}
		for i := 0; i < n; i++ {
			// 1. tokenizer: arbitrary non-empty fields, every quoting style
			k := 1 + g.Intn(4)
			fields := make([]string, k)
			for j := range fields {
				if g.Chance(1, 2) {
					fields[j] = g.From("ab \t\\\"'*=%/\xff\xc3\xa9", 1+g.Intn(6))
				} else {
					fields[j] = c17elems[g.Intn(len(c17elems))]
				}
			}
			canonical := g.Chance(1, 2)
			line, styles := renderLine(g, fields, canonical)
			emit(Case{"op": "stage.parsefields", "line": hx(line), "gen_fields": hxs(fields), "styles": styles, "canonical": canonical})
			emit(Case{"op": "stage.parsefields", "line": hx(mutateLine(g, line))})
			emit(Case{"op": "stage.parsefields", "line": hx(g.From("a \\\"'*\t\x00\xff", g.Intn(9)))})

			// 2. whole lines from the grammar, then mutated
			gl := genStructured(g)
			line, _ = renderLine(g, gl.fields(), false)
			emit(Case{"op": "stage.parseline", "line": hx(line), "gen": gl.json()})
			emit(Case{"op": "stage.parseline", "line": hx(mutateLine(g, line))})
			if i%4 == 0 {
				b := make([]byte, g.Intn(24))
				for j := range b {
					b[j] = byte(g.Intn(256))
				}
				emit(Case{"op": "stage.parseline", "line": hx(string(b))})
				emit(Case{"op": "stage.parseline", "line": hx(g.Pick("file", "dir", "omit", "tbd", "node", "symlink") + " " +
					g.From("/ab\\*'\" =%", 1+g.Intn(8)) + " " + g.From("mod=ugo+-rwx,7 \\", g.Intn(10)))})
			}

			// 3. value parsers
			emit(Case{"op": "stage.modstring", "s": hx(genModValue(g))})
			emit(Case{"op": "stage.modstring", "s": hx(g.From("ugoa+-=rwxXst,07", g.Intn(8)))})
			emit(Case{"op": "stage.uid", "s": hx(genOptValue(g, "uid"))})
			emit(Case{"op": "stage.uid", "s": hx(g.From("0123456789:+-x", g.Intn(12)))})
			emit(Case{"op": "stage.dev", "s": hx(genOptValue(g, "dev"))})
			emit(Case{"op": "stage.dev", "s": hx(g.Pick("c", "b", "x", "") + g.From("0123456789:+", g.Intn(13)))})

			// 4. file level: wildcard add / omit on the scratch tree
			if i%3 == 0 {
				tf, td := c17files, c17dirs
				if i%6 == 0 {
					tf, td = c17filesG, c17dirsG
				}
				if i%12 == 3 {
					// the build root is "/" itself: stage-relative names are host paths
					pre, lines := genUserList(g, c17slash)
					files, dirs := []string{}, []string{c17slash}
					for _, f := range tf {
						files = append(files, c17slash+f)
					}
					for _, d := range td {
						dirs = append(dirs, c17slash+d)
					}
					emit(Case{"op": "stage.userlist", "files": hxs(files), "dirs": hxs(dirs), "pre": hxs(pre), "lines": hxs(lines), "slashroot": true})
				} else {
					pre, lines := genUserList(g, "")
					emit(Case{"op": "stage.userlist", "files": hxs(tf), "dirs": hxs(td), "pre": hxs(pre), "lines": hxs(lines)})
				}
			}
			// 5. recipe files through the stagemaker binary
			if i%10 == 0 || (tier == "thorough" && i%40 == 1) {
				if tier != "thorough" || i < 6000 {
					lines, cmdRoot := genRecipe(g)
					emit(Case{"op": "sm.recipe", "lines": hxs(lines), "cmd_root": cmdRoot})
				}
			}
		}
		// whole type x option table with sample values, every quoting style
		for _, ty := range c17types {
			for _, o := range c17opts {
				gl := genLine{Type: ty, Name: "/n", Opts: [][2]string{{o, map[string]string{"mod": "644", "uid": "7", "gid": "7",
					"src": "/x", "dev": "c4:7", "targ": "/t", "absent": "skip"}[o]}}}
				for st := 0; st < 3; st++ {
					f := gl.fields()
					parts := make([]string, len(f))
					for j := range f {
						parts[j] = renderField(st, f[j])
					}
					emit(Case{"op": "stage.parseline", "line": hx(strings.Join(parts, " ")), "gen": gl.json()})
				}
			}
		}
		_ = fmt.Sprint
	})
}
