// lcharness: drives the real potano/layercake packages (built from /repo's working
// tree with -tags verif) on generated or replayed cases and prints one JSON line per
// case: the case input plus "impl", the implementation's canonical observation.
package main

import (
	"bufio"
	"encoding/json"
	"flag"
	"fmt"
	"os"
	"sort"
)

// Case is one JSON object; "op" selects the driver operation, "impl" is filled by run.
type Case map[string]interface{}

type suite struct {
	gen func(g *Gen, tier string, emit func(Case))
	run func(c Case) interface{}
}

var suites = map[string]*suite{}

// ops maps an op name to the function that runs the implementation on a case.
var ops = map[string]func(c Case) interface{}{}

func register(name string, gen func(g *Gen, tier string, emit func(Case))) {
	suites[name] = &suite{gen: gen}
}

func runCase(c Case) {
	op, _ := c["op"].(string)
	fn := ops[op]
	if fn == nil {
		c["impl"] = map[string]interface{}{"harness-error": "unknown op " + op}
		return
	}
	c["impl"] = guarded(func() interface{} { return fn(c) })
}

// guarded converts a Go panic into the observation {"cls":"panic"}.
func guarded(f func() interface{}) (out interface{}) {
	defer func() {
		if r := recover(); r != nil {
			_ = fmt.Sprint(r)
			out = map[string]interface{}{"cls": "panic"}
		}
	}()
	return f()
}

func main() {
	seed := flag.Int64("seed", 1, "PRNG seed")
	tier := flag.String("tier", "quick", "quick|thorough")
	mode := flag.String("mode", "gen", "gen|rerun|list")
	flag.Parse()
	out := bufio.NewWriterSize(os.Stdout, 1<<20)
	defer out.Flush()
	enc := json.NewEncoder(out)
	n := 0
	emit := func(c Case) {
		n++
		if _, ok := c["id"]; !ok {
			c["id"] = n
		}
		if p := os.Getenv("VERIF_PROP"); p != "" {
			c["prop"] = p
		}
		runCase(c)
		enc.Encode(c)
		if abortAfterEmit {
			out.Flush()
			os.Exit(3)
		}
	}
	switch *mode {
	case "binrun":
		out.Flush()
		binRun(flag.Arg(0))
		return
	case "list":
		names := []string{}
		for k := range suites {
			names = append(names, k)
		}
		sort.Strings(names)
		for _, k := range names {
			fmt.Fprintln(out, k)
		}
	case "rerun":
		sc := bufio.NewScanner(os.Stdin)
		sc.Buffer(make([]byte, 1<<20), 1<<28)
		for sc.Scan() {
			var c Case
			if err := json.Unmarshal(sc.Bytes(), &c); err != nil {
				continue
			}
			delete(c, "impl")
			emit(c)
		}
	case "gen":
		for _, name := range flag.Args() {
			s := suites[name]
			if s == nil {
				fmt.Fprintln(os.Stderr, "unknown suite", name)
				os.Exit(2)
			}
			s.gen(NewGen(*seed, name), *tier, func(c Case) {
				c["suite"] = name
				emit(c)
			})
		}
	}
}
