package main

import (
	"fmt"
	"io/ioutil"
	"os"
	"path/filepath"
	"sort"
	"strings"
	"time"

	"potano.layercake/config"
	"potano.layercake/fs"
	"potano.layercake/manage"
)

// Command-level scenario runner (DESIGN.md Appendix B): materialises a virtual tree
// below a scratch directory, installs the simulated kernel behind the fs package's
// syscall variables, runs command steps in-process with pretend / fault / crash
// switches, and observes result class, syscalls, tree, mount table and probed layers.

const VB = "/VB" // virtual base path used in cases; replaced by the scratch directory

type crashSentinel struct{}

type scenarioEnv struct {
	root   string // scratch directory standing for VB
	kernel *simKernel
	cfg    *config.ConfigType
	prune  map[string]bool // real mountpoints: listed, not descended into (binary-level runs)
}

func (e *scenarioEnv) virt(p string) string { // virtual -> real
	if p == VB || strings.HasPrefix(p, VB+"/") {
		return e.root + p[len(VB):]
	}
	return p
}

func (e *scenarioEnv) unvirt(p string) string { // real -> virtual
	if p == e.root || strings.HasPrefix(p, e.root+"/") {
		return VB + p[len(e.root):]
	}
	return p
}

// unvirtAll replaces every occurrence (overlay data strings, layerconfig content)
func (e *scenarioEnv) unvirtAll(s string) string { return strings.ReplaceAll(s, e.root, VB) }
func (e *scenarioEnv) virtAll(s string) string   { return strings.ReplaceAll(s, VB, e.root) }

func str(v interface{}) string { s, _ := v.(string); return s }

func (e *scenarioEnv) materialise(tree []interface{}) error {
	for _, it := range tree {
		ent := it.([]interface{})
		p := unhx(ent[0])
		kind := str(ent[1])
		if !(p == VB || strings.HasPrefix(p, VB+"/")) {
			continue // host entry: exists on the real host (or not), model-only
		}
		rp := e.virt(p)
		switch kind {
		case "d":
			if err := os.MkdirAll(rp, 0755); err != nil {
				return err
			}
		case "f":
			os.MkdirAll(filepath.Dir(rp), 0755)
			if err := ioutil.WriteFile(rp, []byte(e.virtAll(unhx(ent[2]))), 0644); err != nil {
				return err
			}
		case "l":
			os.MkdirAll(filepath.Dir(rp), 0755)
			if err := os.Symlink(e.virtAll(unhx(ent[2])), rp); err != nil {
				return err
			}
		}
	}
	return nil
}

func (e *scenarioEnv) listTree() []interface{} {
	type ent struct {
		p    string
		item []interface{}
	}
	var ents []ent
	filepath.Walk(e.root, func(p string, info os.FileInfo, err error) error {
		if err != nil {
			return nil
		}
		vp := e.unvirt(p)
		switch {
		case info.Mode()&os.ModeSymlink != 0:
			t, _ := os.Readlink(p)
			ents = append(ents, ent{vp, []interface{}{hx(vp), "l", hx(e.unvirtAll(t))}})
		case info.IsDir():
			ents = append(ents, ent{vp, []interface{}{hx(vp), "d"}})
			if e.prune[p] {
				return filepath.SkipDir
			}
		default:
			base := filepath.Base(p)
			if strings.HasPrefix(base, "layerconfig") || strings.HasPrefix(base, "data") || strings.HasSuffix(base, ".skel") {
				b, _ := ioutil.ReadFile(p)
				ents = append(ents, ent{vp, []interface{}{hx(vp), "f", hx(e.unvirtAll(string(b)))}})
			} else {
				ents = append(ents, ent{vp, []interface{}{hx(vp), "f"}})
			}
		}
		return nil
	})
	sort.Slice(ents, func(i, j int) bool { return ents[i].p < ents[j].p })
	out := make([]interface{}, len(ents))
	for i, x := range ents {
		out[i] = x.item
	}
	return out
}

func (e *scenarioEnv) install() func() {
	oldM, oldU, oldC, oldW, oldH := fs.SyscallMount, fs.SyscallUnmount, fs.GetAlternateProbeMountsCursor, fs.WriteOK, fs.VerifHook
	fs.SyscallMount = func(src, tgt, fstype string, flags uintptr, data string) error {
		return e.kernel.mount(src, tgt, fstype, flags, data)
	}
	fs.SyscallUnmount = func(tgt string, flags int) error { return e.kernel.umount(tgt, flags) }
	fs.GetAlternateProbeMountsCursor = func() fs.LineReader {
		return fs.NewTextInputCursor("mountinfo", strings.NewReader(e.kernel.mountinfo()))
	}
	return func() {
		fs.SyscallMount, fs.SyscallUnmount, fs.GetAlternateProbeMountsCursor, fs.WriteOK, fs.VerifHook = oldM, oldU, oldC, oldW, oldH
	}
}

func (e *scenarioEnv) inuse(step map[string]interface{}) fs.InUseLayerMap {
	m := fs.InUseLayerMap{}
	us, _ := step["users"].([]interface{})
	for i, u := range us {
		ent := u.([]interface{})
		name := unhx(ent[0])
		m[name] = append(m[name], fs.InUseProc{Pid: uint(1000 + i), UsedAs: uint(ent[1].(float64)), ProgName: "prog", File: unhx(ent[2])})
	}
	return m
}

func (e *scenarioEnv) probeLayers(inuse fs.InUseLayerMap) interface{} {
	return guarded(func() interface{} {
		fs.WriteOK = fs.MakePretender(false, false, nil)
		fs.VerifHook = nil
		layers, err := manage.FindLayers(e.cfg, &config.Opts{})
		if err != nil {
			return obj("cls", "err")
		}
		if err = layers.ProbeAllLayerstate(inuse); err != nil {
			return obj("cls", "err")
		}
		out := []interface{}{}
		for _, l := range layers.Layers() {
			out = append(out, []interface{}{hx(l.Name), hx(l.Base), float64(l.State), l.MountBusy, l.NonMountBusy, l.Overlain, l.Chroot, float64(len(l.Mounts))})
		}
		return obj("cls", "ok", "layers", out)
	})
}

func (e *scenarioEnv) runStep(step map[string]interface{}) interface{} {
	args := unhxs(step["args"])
	for len(args) < 3 {
		args = append(args, "")
	}
	flag := func(k string) bool { b, _ := step[k].(bool); return b }
	// -v changes what is printed, never what is done or reported: the model has no such switch
	opts := &config.Opts{Pretend: flag("pretend"), Force: flag("force"), Verbose: flag("verbose")}
	fs.MessageWriter = ioutil.Discard
	inuse := e.inuse(step)
	e.kernel.syslog = nil
	nops := 0
	oplog := []interface{}{}
	failAt, crashAt := -1, -1
	if v, ok := step["fault"].(float64); ok {
		failAt = int(v)
	}
	if v, ok := step["crash"].(float64); ok {
		crashAt = int(v)
	}
	fs.WriteOK = fs.MakePretender(opts.Pretend, false, nil)
	fs.VerifHook = func(kind, arg string) error {
		if kind == "proc-scan" {
			return nil
		}
		nops++
		oplog = append(oplog, []interface{}{kind, hx(e.unvirt(arg))})
		if nops == crashAt {
			panic(crashSentinel{})
		}
		if nops == failAt {
			return fmt.Errorf("injected fault")
		}
		return nil
	}
	cls := "ok"
	func() {
		defer func() {
			if r := recover(); r != nil {
				if _, ok := r.(crashSentinel); ok {
					cls = "crash"
				} else {
					cls = "panic"
				}
			}
		}()
		var err error
		cmd := str(step["cmd"])
		if cmd == "sysmount" {
			// a mount made by the administrator, not by layercake
			fl, _ := step["flags"].(float64)
			err = e.kernel.mount(e.virt(args[0]), e.virt(args[1]), args[2], uintptr(fl), "")
		} else if cmd == "sysumount" {
			err = e.kernel.umount(e.virt(args[0]), 0)
		} else if cmd == "init" {
			err = manage.InitLayercakeBase(e.cfg)
		} else {
			var layers *manage.Layerdefs
			layers, err = manage.FindLayers(e.cfg, opts)
			if err == nil {
				err = layers.ProbeAllLayerstate(inuse)
			}
			if err == nil {
				switch cmd {
				case "add":
					err = layers.AddLayer(args[0], args[1], e.virt(args[2]))
				case "remove":
					err = layers.RemoveLayer(args[0], flag("files"))
				case "rename":
					err = layers.RenameLayer(args[0], args[1])
				case "rebase":
					err = layers.RebaseLayer(args[0], args[1])
				case "mkdirs":
					err = layers.Makedirs(args[0])
				case "mount":
					err = layers.Mount(args[0])
				case "umount":
					err = layers.Unmount(args[0], flag("all"))
				case "shake":
					err = layers.Shake()
				case "chroot":
					err = layers.Chroot(args[0])
				case "probe":
				default:
					err = fmt.Errorf("unknown command")
				}
			}
		}
		if err != nil {
			cls = "err"
		}
	}()
	fs.VerifHook = nil
	if str(step["cmd"]) == "rename" {
		// Go map iteration decides the order in which children are rewritten; hand the
		// observed order to the model (the theorems quantify over every order)
		order := []string{}
		for _, o := range oplog {
			e := o.([]interface{})
			if e[0] == "open" {
				p := unhx(e[1])
				if strings.HasSuffix(p, "/layerconfig.new") {
					order = append(order, filepath.Base(filepath.Dir(p)))
				}
			}
		}
		if len(order) > 0 {
			step["childOrder"] = hxs(order)
		}
	}
	sys := []interface{}{}
	for _, s := range e.kernel.syslog {
		row := make([]interface{}, len(s))
		for i, v := range s {
			if h, ok := v.(string); ok && i > 0 {
				row[i] = hx(e.unvirtAll(unhx(h)))
			} else {
				row[i] = v
			}
		}
		sys = append(sys, row)
	}
	return obj("cls", cls, "sys", sys, "nops", float64(nops), "tree", e.listTree(),
		"table", e.kernel.tableJSON(e.unvirtAll), "layers", e.probeLayers(inuse))
}

func cfgFromCase(c map[string]interface{}, virt func(string) string) *config.ConfigType {
	g := func(k string) string { return unhx(c[k]) }
	return &config.ConfigType{
		Basepath: virt(g("basepath")), Layerdirs: virt(g("layerdirs")), LayerBuildRoot: g("buildRoot"),
		LayerBinPkgdir: g("binPkg"), LayerGeneratedir: g("generated"), LayerOvfsWorkdir: g("workdir"),
		LayerOvfsUpperdir: g("upperdir"), Exportdirs: virt(g("exportdirs")), ExportBinPkgdir: g("exportBinPkg"),
		ExportGeneratedir: g("exportGenerated"), ChrootExec: "/bin/true",
	}
}

var scenarioSeq int

func runScenario(c Case) interface{} {
	scratch := os.Getenv("VERIF_SCRATCH")
	if scratch == "" {
		scratch = os.TempDir()
	}
	scenarioSeq++
	// every other scenario lives below a directory whose name needs octal escapes in
	// mountinfo (blank, backslash): the virtual base path stays /VB
	pat := fmt.Sprintf("sc%d-", scenarioSeq)
	// (layerconfig has no quoting: a literal path below the base path inside a file cannot
	// contain a blank, so such scenarios keep a plain name)
	literal := false
	if tree, ok := c["tree"].([]interface{}); ok {
		for _, it := range tree {
			ent := it.([]interface{})
			if len(ent) > 2 && strings.Contains(unhx(ent[2]), VB) {
				literal = true
			}
		}
	}
	if scenarioSeq%2 == 0 && !literal {
		pat = fmt.Sprintf("sc %d\\b-", scenarioSeq)
	}
	root, err := ioutil.TempDir(scratch, pat)
	if err != nil {
		return obj("harness-error", err.Error())
	}
	defer os.RemoveAll(root)
	e := &scenarioEnv{root: root, kernel: newSimKernel()}
	e.cfg = cfgFromCase(c["cfg"].(map[string]interface{}), e.virt)
	if tree, ok := c["tree"].([]interface{}); ok {
		if err := e.materialise(tree); err != nil {
			return obj("harness-error", err.Error())
		}
	}
	host, _ := c["host"].([]interface{})
	for _, h := range host {
		r := h.([]interface{})
		e.kernel.mnts = append(e.kernel.mnts, kmnt{ID: int(r[0].(float64)), Parent: int(r[1].(float64)), Dev: unhx(r[2]),
			Root: e.virt(unhx(r[3])), Mp: e.virt(unhx(r[4])), Fstype: unhx(r[5]), Src: e.virt(unhx(r[6])),
			Lower: e.virt(unhx(r[7])), Upper: e.virt(unhx(r[8])), Work: e.virt(unhx(r[9]))})
	}
	restore := e.install()
	defer restore()
	steps, _ := c["steps"].([]interface{})
	out := []interface{}{}
	for _, s := range steps {
		// a command must return in bounded time: a step that does not is reported as
		// "timeout"; its goroutine cannot be stopped, so the harness ends after this case
		ch := make(chan interface{}, 1)
		go func() { ch <- e.runStep(s.(map[string]interface{})) }()
		select {
		case r := <-ch:
			out = append(out, r)
		case <-time.After(stepTimeout):
			out = append(out, obj("cls", "timeout"))
			abortAfterEmit = true
		}
		if abortAfterEmit {
			break
		}
	}
	return obj("steps", out)
}

var stepTimeout = 10 * time.Second

// set when a runaway goroutine is left behind: main flushes the case and exits with status 3
var abortAfterEmit bool

func init() {
	ops["scenario"] = runScenario
}
