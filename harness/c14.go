package main

import (
	"regexp"
	"strings"
	"time"

	"potano.layercake/portage/atom"
	"potano.layercake/portage/depend"
	"potano.layercake/portage/parse"
)

// C14: package atoms and dependency strings.  Structured stream: abstract syntax trees
// of the PMS grammar, printed with random whitespace (the tree travels with the case);
// malformed stream: mutated text, unbalanced parentheses, dangling operators.

type useDepAst struct {
	Flag string
	Kind int // 0 [f] 1 [f=] 2 [!f=] 3 [f?] 4 [!f?] 5 [-f]
	Dflt int // 0 none 1 (+) 2 (-)
}

type verAst struct {
	Nums   []string
	Letter int // 0 = none
	Suf    [][2]interface{}
	Rev    string
	HasRev bool
}

type atomAst struct {
	Bl, Op   int
	Glob     bool
	Cat      string
	Name     string
	Ver      *verAst
	Slot     string
	HasSlot  bool
	Sub      string
	HasSub   bool
	Sop      int
	Repo     string
	HasRepo  bool
	Use      []useDepAst
}

var opText = []string{"", "<", "<=", "=", ">=", ">", "~"}
var sufText = []string{"_alpha", "_beta", "_pre", "_rc", "_p"}

func (v *verAst) print() string {
	s := strings.Join(v.Nums, ".")
	if v.Letter != 0 {
		s += string(rune(v.Letter))
	}
	for _, sf := range v.Suf {
		s += sufText[sf[0].(int)] + sf[1].(string)
	}
	if v.HasRev {
		s += "-r" + v.Rev
	}
	return s
}

func (u useDepAst) print() string {
	d := []string{"", "(+)", "(-)"}[u.Dflt]
	switch u.Kind {
	case 0:
		return u.Flag + d
	case 1:
		return u.Flag + d + "="
	case 2:
		return "!" + u.Flag + d + "="
	case 3:
		return u.Flag + d + "?"
	case 4:
		return "!" + u.Flag + d + "?"
	}
	return "-" + u.Flag + d
}

func (a *atomAst) print() string {
	s := []string{"", "!", "!!"}[a.Bl] + opText[a.Op]
	if a.Cat != "" {
		s += a.Cat + "/"
	}
	s += a.Name
	if a.Ver != nil {
		s += "-" + a.Ver.print()
	}
	if a.Glob {
		s += "*"
	}
	if a.HasSlot {
		s += ":" + a.Slot
		if a.HasSub {
			s += "/" + a.Sub
		}
		if a.Sop == 2 {
			s += "="
		}
	} else if a.Sop == 1 {
		s += ":*"
	} else if a.Sop == 2 {
		s += ":="
	}
	if a.HasRepo {
		s += "::" + a.Repo
	}
	if len(a.Use) > 0 {
		parts := make([]string, len(a.Use))
		for i, u := range a.Use {
			parts[i] = u.print()
		}
		s += "[" + strings.Join(parts, ",") + "]"
	}
	return s
}

func optHx(has bool, s string) interface{} {
	if !has {
		return nil
	}
	return hx(s)
}

func (a *atomAst) json() map[string]interface{} {
	var ver interface{}
	if a.Ver != nil {
		suf := []interface{}{}
		for _, sf := range a.Ver.Suf {
			suf = append(suf, []interface{}{sf[0], hx(sf[1].(string))})
		}
		var letter interface{}
		if a.Ver.Letter != 0 {
			letter = a.Ver.Letter
		}
		ver = obj("nums", hxs(a.Ver.Nums), "letter", letter, "suf", suf, "rev", optHx(a.Ver.HasRev, a.Ver.Rev))
	}
	use := []interface{}{}
	for _, u := range a.Use {
		use = append(use, obj("f", hx(u.Flag), "k", u.Kind, "d", u.Dflt))
	}
	return obj("bl", a.Bl, "op", a.Op, "glob", a.Glob, "cat", hx(a.Cat), "name", hx(a.Name), "ver", ver,
		"slot", optHx(a.HasSlot, a.Slot), "sub", optHx(a.HasSlot && a.HasSub, a.Sub), "sop", a.Sop,
		"repo", optHx(a.HasRepo, a.Repo), "use", use)
}

type depNode struct {
	Kind string // atom all any one most use
	Atom *atomAst
	Flag string
	Neg  bool
	Deps []*depNode
}

func (d *depNode) toks(out []string) []string {
	switch d.Kind {
	case "atom":
		return append(out, d.Atom.print())
	case "any":
		out = append(out, "||")
	case "one":
		out = append(out, "^^")
	case "most":
		out = append(out, "??")
	case "use":
		f := d.Flag + "?"
		if d.Neg {
			f = "!" + f
		}
		out = append(out, f)
	}
	out = append(out, "(")
	for _, c := range d.Deps {
		out = c.toks(out)
	}
	return append(out, ")")
}

func (d *depNode) json() map[string]interface{} {
	if d.Kind == "atom" {
		return obj("k", "atom", "ast", d.Atom.json())
	}
	deps := []interface{}{}
	for _, c := range d.Deps {
		deps = append(deps, c.json())
	}
	m := obj("k", d.Kind, "deps", deps)
	if d.Kind == "use" {
		m["flag"] = hx(d.Flag)
		m["neg"] = d.Neg
	}
	return m
}

// --- generators ---------------------------------------------------------------------

const lowers = "abcdefghijklmnopqrstuvwxyz"
const alnums = "abcdefghijklmnopqrstuvwxyzABCDEFGHIJKLMNOPQRSTUVWXYZ0123456789"

// "looks like a version" for the rule that a package name must not end in a hyphen followed
// by a version (PMS 3.1.2).  Deliberately wider than PMS 3.2: any _word counts as a suffix
// (the verified domain excludes names such as foo-2_w, see Lc/Spec/DepGrammar.lean).
var c14VersionRE = regexp.MustCompile(`^[0-9]+(\.[0-9]+)*[a-z]?(_[A-Za-z0-9_]+)?(-r[0-9]+)?$`)

func nameOK(n string) bool {
	for i := 0; i < len(n); i++ {
		if n[i] == '-' && c14VersionRE.MatchString(n[i+1:]) {
			return false
		}
	}
	return true
}

var stockNames = []string{"foo", "gtk+", "libsdl2", "foo-1-bar", "python", "qt5-core", "font-adobe-100dpi", "c++-gtk-utils",
	"lib3ds", "0ad", "x264", "a", "foo_bar", "g15daemon", "pkg-r", "pkg-r1x", "mod_1-2a-b", "9base", "e2fsprogs", "gcc-11-rt"}
var stockCats = []string{"dev-libs", "x11-libs", "media-libs", "sys-apps", "virtual", "dev-lang", "a", "app-text", "net-p2p",
	"dev-python", "gnome-base", "kde-frameworks", "x", "cat_1.2+x", "sec-policy"}
var stockFlags = []string{"foo", "bar", "ssl", "X", "gtk", "python_targets_python3_10", "abi_x86_32", "cpu_flags_x86_sse2",
	"a", "x-y", "l10n_pt-BR", "static-libs", "qt5", "ruby_targets_ruby31", "video_cards_amdgpu", "64bit", "threads", "a+b", "b@c"}

func c14GenName(g *Gen) string {
	for {
		var n string
		if g.Chance(1, 2) {
			n = stockNames[g.Intn(len(stockNames))]
		} else {
			parts := 1 + g.Intn(4)
			ps := make([]string, parts)
			for i := range ps {
				switch g.Intn(5) {
				case 0:
					ps[i] = g.From("0123456789", 1+g.Intn(3))
				case 1:
					ps[i] = g.From("0123456789", 1) + g.From(lowers+"0123456789_", 1+g.Intn(3))
				case 2:
					ps[i] = "r" + g.From("0123456789", g.Intn(3))
				default:
					ps[i] = g.From(alnums, 1) + g.From(alnums+"+_", g.Intn(5))
				}
			}
			n = strings.Join(ps, "-")
			if g.Chance(1, 10) {
				n += "-"
			}
			if g.Chance(1, 10) {
				n += "+"
			}
		}
		if nameOK(n) && n[0] != '+' && n[0] != '-' {
			return n
		}
	}
}

func genCat(g *Gen) string {
	if g.Chance(3, 4) {
		return stockCats[g.Intn(len(stockCats))]
	}
	return g.From(alnums+"_", 1) + g.From(alnums+"+_.-", g.Intn(8))
}

func genDigits(g *Gen) string {
	switch g.Intn(8) {
	case 0:
		return "0"
	case 1:
		return "0" + g.From("0123456789", 1+g.Intn(2))
	case 2:
		return g.Pick("20240101", "99999", "100000", "1234567", "00000")
	}
	return g.From("123456789", 1) + g.From("0123456789", g.Intn(3))
}

func c14GenVersion(g *Gen) *verAst {
	v := &verAst{}
	for n := 1 + g.Intn(4); n > 0; n-- {
		v.Nums = append(v.Nums, genDigits(g))
	}
	if g.Chance(1, 5) {
		v.Letter = int(lowers[g.Intn(26)])
	}
	if g.Chance(1, 3) {
		for n := 1 + g.Intn(2); n > 0; n-- {
			d := ""
			if g.Chance(2, 3) {
				d = genDigits(g)
			}
			v.Suf = append(v.Suf, [2]interface{}{g.Intn(5), d})
		}
	}
	if g.Chance(1, 3) {
		v.HasRev = true
		v.Rev = genDigits(g)
	}
	return v
}

func genSlot(g *Gen) string {
	if g.Chance(1, 2) {
		return g.Pick("0", "1", "2", "3.8", "5", "0.2.1", "stable", "1.2-r3", "4.9_p1", "a+b", "_x", "11", "2.4.6")
	}
	return g.From(alnums+"_", 1) + g.From(alnums+"+_.-", g.Intn(5))
}

func genFlag(g *Gen) string {
	if g.Chance(3, 4) {
		return stockFlags[g.Intn(len(stockFlags))]
	}
	// small universe: the implementation interns flag names in a 16-bit table
	return g.From("abcXY019", 1) + g.From("abXY01+_@-", g.Intn(3))
}

// genAtom builds an atom of the grammar.  strict = acceptable inside a dependency string
// (a version always has an operator).
func genAtom(g *Gen, strict bool) *atomAst {
	a := &atomAst{Name: c14GenName(g)}
	if !g.Chance(1, 12) {
		a.Cat = genCat(g)
	}
	if g.Chance(1, 6) {
		a.Bl = 1 + g.Intn(2)
	}
	if g.Chance(1, 2) {
		a.Ver = c14GenVersion(g)
		if strict || g.Chance(2, 3) {
			a.Op = 1 + g.Intn(6)
		}
		if a.Op == 3 && g.Chance(1, 4) {
			a.Glob = true
		}
	}
	switch g.Intn(6) {
	case 0:
		a.Sop = 1 + g.Intn(2) // :* or :=
	case 1, 2:
		a.HasSlot = true
		a.Slot = genSlot(g)
		if g.Chance(1, 3) {
			a.HasSub = true
			a.Sub = genSlot(g)
		}
		if g.Chance(1, 3) {
			a.Sop = 2
		}
	}
	if g.Chance(1, 6) {
		a.HasRepo = true
		a.Repo = g.Pick("gentoo", "my_overlay", "x-1", "_r", "guru", "a")
	}
	if g.Chance(1, 3) {
		for n := 1 + g.Intn(3); n > 0; n-- {
			u := useDepAst{Flag: genFlag(g), Kind: g.Intn(6)}
			if g.Chance(1, 3) {
				u.Dflt = 1 + g.Intn(2)
			}
			a.Use = append(a.Use, u)
		}
	}
	return a
}

func genDep(g *Gen, depth int) *depNode {
	if depth <= 0 || g.Chance(3, 5) {
		return &depNode{Kind: "atom", Atom: genAtom(g, !g.Chance(1, 40))}
	}
	d := &depNode{Kind: g.Pick("all", "any", "one", "most", "use", "use", "any")}
	if d.Kind == "use" {
		d.Flag = genFlag(g)
		d.Neg = g.Chance(1, 3)
	}
	n := g.Intn(4)
	if g.Chance(1, 10) {
		n = 0
	}
	for ; n > 0; n-- {
		d.Deps = append(d.Deps, genDep(g, depth-1))
	}
	return d
}

var wsChoices = []string{" ", " ", " ", "  ", "\t", "\n", " \n\t ", "\r\n", "\n\n", "\v", "\f "}

func layout(g *Gen, toks []string) string {
	var b strings.Builder
	if g.Chance(1, 5) {
		b.WriteString(wsChoices[g.Intn(len(wsChoices))])
	}
	for i, t := range toks {
		if i > 0 {
			b.WriteString(wsChoices[g.Intn(len(wsChoices))])
		}
		b.WriteString(t)
	}
	if g.Chance(1, 5) {
		b.WriteString(wsChoices[g.Intn(len(wsChoices))])
	}
	return b.String()
}

var junkToks = []string{"(", ")", "||", "^^", "??", "foo?", "!bar?", "a/b", "||(", "a/b)", "?", "!?", "(a/b", "x?", "!", "||)",
	"a/b[x]c/d", "=a/b-1*", "a/b-1", ">=a/b-1.2_rc1-r2:3/4=::r[x(+)?,-y]", "^", "|", "? ?", "!!a/b", "!!!a/b", "a/b:", "[x]", "a/b[",
	"\x00", "a/b\x01c/d", "\xff\xfe", "foo?(", ")(", "( )", "|| ( )", "a?b?", "!x?y", "??(", "~a/b", "a//b", "/", "-1", "a/-1", "a/b?"}

func mutateDep(g *Gen, s string) string {
	b := []byte(s)
	for k := 1 + g.Intn(3); k > 0; k-- {
		p := 0
		if len(b) > 0 {
			p = g.Intn(len(b) + 1)
		}
		ins := func(t string) { b = append(b[:p], append([]byte(t), b[p:]...)...) }
		switch g.Intn(9) {
		case 0:
			if p < len(b) {
				b = append(b[:p], b[p+1:]...)
			}
		case 1:
			if p < len(b) {
				const cs = "()|^?! [/-:*=~<>,"
				b[p] = cs[g.Intn(len(cs))]
			}
		case 2:
			b = b[:p]
		case 3:
			ins(" " + junkToks[g.Intn(len(junkToks))] + " ")
		case 4:
			if p < len(b) {
				b[p] = byte(g.Intn(256))
			}
		case 5:
			ins(g.Pick(" ) ", " ( ", ")", "(", " || ", " ?? ", " ^^ ", " x? ", " !y? "))
		case 6:
			// drop one parenthesis token
			idx := []int{}
			for i, c := range b {
				if c == '(' || c == ')' {
					idx = append(idx, i)
				}
			}
			if len(idx) > 0 {
				q := idx[g.Intn(len(idx))]
				b = append(b[:q], b[q+1:]...)
			}
		case 7:
			// remove a whitespace byte (glue two tokens)
			idx := []int{}
			for i, c := range b {
				if c <= ' ' {
					idx = append(idx, i)
				}
			}
			if len(idx) > 0 {
				q := idx[g.Intn(len(idx))]
				b = append(b[:q], b[q+1:]...)
			}
		case 8:
			ins(junkToks[g.Intn(len(junkToks))])
		}
	}
	return string(b)
}

func mutateAtom(g *Gen, s string) string {
	b := []byte(s)
	for k := 1 + g.Intn(2); k > 0; k-- {
		p := g.Intn(len(b) + 1)
		switch g.Intn(5) {
		case 0:
			if p < len(b) {
				b = append(b[:p], b[p+1:]...)
			}
		case 1:
			if p < len(b) {
				const cs = "!~<>=/-_+*.:[](),?@ r0a"
				b[p] = cs[g.Intn(len(cs))]
			}
		case 2:
			b = b[:p]
		case 3:
			b = append(b[:p], append([]byte(g.Pick("-", "-1", "-r1", "_", "_rc", "*", ":", "::", "/", "[", "]", "(+)", "!", "=", ",", ".", "-1-2", " x")), b[p:]...)...)
		case 4:
			if p < len(b) {
				b[p] = byte(g.Intn(256))
			}
		}
	}
	return string(b)
}

// --- observation --------------------------------------------------------------------

func jUseDeps(uds []atom.UseDependency) []interface{} {
	out := []interface{}{}
	for _, u := range uds {
		out = append(out, obj("t", u.Type, "d", u.FlagDefault, "f", hx(atom.VerifUseFlagName(u))))
	}
	return out
}

func jParsedAtom(pa atom.ParsedAtom) map[string]interface{} {
	return obj("atom", hx(pa.Atom), "cat", hx(pa.Category), "name", hx(pa.Name), "bv", hx(pa.BaseVer),
		"suf", hx(pa.Suffix), "rev", hx(pa.Revision), "cv", hx(pa.CompVer), "slot", hx(pa.Slot), "sub", hx(pa.Subslot),
		"repo", hx(pa.Repo), "vop", pa.VerRelop, "sop", pa.SlotRelop, "any", pa.AnySlot, "same", pa.SameSlot,
		"bl", pa.Blocker, "hb", pa.HardBlock, "use", jUseDeps(pa.UseDependencies))
}

func jDepTree(d depend.PackageDependency) interface{} {
	if d.DependencyType() == depend.Pkg_dep_atom {
		da := d.(*depend.DependAtom)
		return obj("k", 0, "pa", obj("atom", hx(da.Atom), "cat", hx(da.Category), "name", hx(da.Name),
			"cv", hx(da.ComparisonString()), "slot", hx(da.Slot), "sub", hx(da.Subslot), "repo", hx(da.Repo),
			"bl", da.Blocker, "hb", da.HardBlock, "use", jUseDeps(depend.VerifUseDependencies(da))))
	}
	deps := []interface{}{}
	for _, c := range d.Dependencies() {
		deps = append(deps, jDepTree(c))
	}
	return obj("k", d.DependencyType(), "flag", hx(d.UseFlag()), "deps", deps)
}

func decodeOnce(s string) (map[string]interface{}, []depend.PackageDependency) {
	deps, err := depend.DecodeDependencies([]byte(s))
	if err != nil {
		return obj("cls", "err"), nil
	}
	l := []interface{}{}
	for _, d := range deps {
		l = append(l, jDepTree(d))
	}
	return obj("cls", "ok", "deps", l), deps
}

func observeDecode(s string) interface{} {
	o, deps := decodeOnce(s)
	if o["cls"] != "ok" {
		return o
	}
	strs := make([]string, len(deps))
	for i, d := range deps {
		strs[i] = d.String()
	}
	str := strings.Join(strs, " ")
	o["str"] = hx(str)
	o["re"] = guarded(func() interface{} { r, _ := decodeOnce(str); return r })
	return o
}

func observeAtom(s string, vnr, dep bool) interface{} {
	cur := parse.NewAtomCursor([]byte(s))
	pa, err := atom.RawParseAtomAtCursor(cur, vnr, dep)
	if err != nil {
		return obj("cls", "err")
	}
	return obj("cls", "ok", "end", cur.Pos, "pa", jParsedAtom(pa))
}

func getBool(v interface{}) bool { b, _ := v.(bool); return b }

// watchdog runs f (which may panic or never return) and reports {"cls":"hang"} when it
// has not returned after two seconds.  A hung call keeps spinning in its goroutine until
// the harness exits; after a few of them every further case is reported as hung at once.
var c14Hangs int

func watchdog(f func() interface{}) interface{} {
	if c14Hangs >= 3 {
		return obj("cls", "hang")
	}
	ch := make(chan interface{}, 1)
	go func() { ch <- guarded(f) }()
	select {
	case r := <-ch:
		return r
	case <-time.After(2 * time.Second):
		c14Hangs++
		return obj("cls", "hang")
	}
}

func init() {
	ops["dep.decode"] = func(c Case) interface{} {
		return watchdog(func() interface{} { return observeDecode(unhx(c["s"])) })
	}
	ops["atom.parse"] = func(c Case) interface{} {
		return watchdog(func() interface{} {
			return observeAtom(unhx(c["s"]), getBool(c["vnr"]), getBool(c["dep"]))
		})
	}
	ops["dep.token"] = func(c Case) interface{} {
		_, tt, flag, pos := depend.VerifGetToken([]byte(unhx(c["s"])), 0)
		return obj("tt", tt, "flag", hx(flag), "pos", pos)
	}

	register("c14", func(g *Gen, tier string, emit func(Case)) {
		n := 250
		if tier == "thorough" {
			n = 15000
		}
		for i := 0; i < n; i++ {
			if i == 0 {
				// directed: every operator at the very end of the input, after 0..2 trailing bytes
				for _, pre := range []string{"", "a/b ", "ssl? ( a/b ) ", "|| ( a/b ) ", "( "} {
					for _, opr := range []string{"||", "^^", "??", "ssl?", "!ssl?", "(", ")", "|| (", "ssl? (", "!", "|"} {
						for _, tail := range []string{"", " ", "\n", "\t", "  ", " \t", "\x00"} {
							emit(Case{"op": "dep.decode", "s": hx(pre + opr + tail)})
						}
					}
				}
			}
			// dependency strings from trees
			depth := g.Intn(5)
			if g.Chance(1, 40) {
				depth = 8 + g.Intn(30)
			}
			var roots []*depNode
			var toks []string
			jr := []interface{}{}
			for k := g.Intn(4); k >= 0; k-- {
				d := genDep(g, depth)
				if depth > 7 { // deep chain
					for j := 0; j < depth; j++ {
						d = &depNode{Kind: g.Pick("all", "any", "use", "one", "most"), Flag: "f", Deps: []*depNode{d}}
					}
				}
				roots = append(roots, d)
				toks = d.toks(toks)
				jr = append(jr, d.json())
			}
			if g.Chance(1, 30) {
				roots, toks, jr = nil, nil, []interface{}{}
			}
			text := layout(g, toks)
			emit(Case{"op": "dep.decode", "s": hx(text), "ast": jr})
			emit(Case{"op": "dep.decode", "s": hx(mutateDep(g, text))})
			// truncation right after a token, with 0..2 trailing bytes (error paths that
			// slice the input near its end)
			if len(text) > 0 {
				cut := g.Intn(len(text) + 1)
				for cut < len(text) && text[cut] > ' ' {
					cut++
				}
				emit(Case{"op": "dep.decode", "s": hx(text[:cut] + g.Pick("", " ", "\n", "\t", "  ", " \n"))})
			}
			if i%4 == 0 {
				m := 1 + g.Intn(6)
				jt := make([]string, m)
				for k := range jt {
					jt[k] = junkToks[g.Intn(len(junkToks))]
				}
				emit(Case{"op": "dep.decode", "s": hx(layout(g, jt))})
			}
			// tokenizer alone
			tk := g.Pick("(", ")", "||", "^^", "??", "foo?", "!foo?", "a/b", "|", "||x", "(x", "!?", "?", "a?", "!a?b?", "+?", "é?", "!", "")
			if g.Chance(1, 3) {
				tk = mutateDep(g, tk)
			}
			emit(Case{"op": "dep.token", "s": hx(g.Pick("", " ", "\n\t", "\x00") + tk + g.Pick("", " ", " x", "\n", "(", "?"))})
			// atoms
			for k := 0; k < 2; k++ {
				a := genAtom(g, false)
				vnr, dep := g.Chance(1, 2), g.Chance(2, 3)
				s := a.print()
				emit(Case{"op": "atom.parse", "s": hx(s), "vnr": vnr, "dep": dep, "ast": a.json()})
				emit(Case{"op": "atom.parse", "s": hx(mutateAtom(g, s)), "vnr": vnr, "dep": dep})
			}
		}
	})
}
