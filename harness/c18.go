package main

import (
	"errors"
	"fmt"
	"io/ioutil"
	"os"
	"os/exec"
	"path"
	"sort"
	"strings"
	"time"

	"potano.layercake/config"
)

// C18: configuration precedence.  A case describes a small world under the virtual
// directory /V (files with contents, directories, environment, switches, argv[0]); the
// op materialises it under a fresh scratch directory (every "/V/" is replaced by the
// real prefix), runs config.Load in-process and maps the result back.  Only names that
// are opened (file names, CONFIGFILE values, LAYERCONF, HOME, -config, argv[0]) live
// under /V; generated names never contain "..", so the substitution commutes with
// path.Clean/Join.  Setting values (BASEPATH, LAYERS, …) are never opened and are
// arbitrary paths outside /V.

const vroot = "/V"

var c18Counter, c18Hangs int

type c18File struct{ Name, Content string }

func c18Subst(s, root string) string {
	if s == vroot {
		return root
	}
	return strings.ReplaceAll(s, vroot+"/", root+"/")
}

func c18Unsubst(s, root string) string {
	return strings.ReplaceAll(s, root, vroot)
}

func c18Class(err error) string {
	msg := err.Error()
	var pe *os.PathError
	switch {
	case strings.HasPrefix(msg, "Config-file loop"):
		return "err:loop"
	case strings.HasPrefix(msg, "Unrecognized setting"):
		return "err:unknown-key"
	case strings.HasPrefix(msg, "No absolute path"):
		return "err:no-abs-path"
	case errors.As(err, &pe):
		return "err:open"
	default:
		// a read error, or a message in other words than this table knows: some error; the
		// comparison with the model accepts any error class in its place
		return unclassified
	}
}

func c18Pairs(v interface{}) []c18File {
	l, _ := v.([]interface{})
	out := []c18File{}
	for _, x := range l {
		p, _ := x.([]interface{})
		if len(p) == 2 {
			out = append(out, c18File{unhx(p[0]), unhx(p[1])})
		}
	}
	return out
}

func c18Map(v interface{}) map[string]interface{} {
	m, _ := v.(map[string]interface{})
	if m == nil {
		m = map[string]interface{}{}
	}
	return m
}

func runConfigLoad(c Case) interface{} {
	base := os.Getenv("VERIF_SCRATCH")
	if base == "" {
		base = os.TempDir()
	}
	c18Counter++
	root, err := ioutil.TempDir(base, fmt.Sprintf("c18-%d-", c18Counter))
	if err != nil {
		return obj("harness-error", "mkdir scratch: "+err.Error())
	}
	defer os.RemoveAll(root)
	if _, err := os.Stat("/etc/layercake.conf"); err == nil {
		return obj("harness-error", "/etc/layercake.conf exists on this host")
	}
	real := func(name string) string {
		n := c18Subst(name, root)
		if !path.IsAbs(n) {
			n = root + "/" + n
		}
		return n
	}
	for _, d := range unhxs(c["dirs"]) {
		if err := os.MkdirAll(real(d), 0755); err != nil {
			return obj("harness-error", "mkdir: "+err.Error())
		}
	}
	// files named in "links" are symbolic links to a file kept elsewhere (as dot-file managers
	// and /etc/alternatives set configuration files up): to the reader they are that file
	asLink := map[string]bool{}
	for _, n := range unhxs(c["links"]) {
		asLink[n] = true
	}
	for i, f := range c18Pairs(c["files"]) {
		p := real(f.Name)
		if err := os.MkdirAll(path.Dir(p), 0755); err != nil {
			return obj("harness-error", "mkdir: "+err.Error())
		}
		where := p
		if asLink[f.Name] {
			os.MkdirAll(root+"/.kept-elsewhere", 0755)
			where = fmt.Sprintf("%s/.kept-elsewhere/%d", root, i)
			if err := os.Symlink(where, p); err != nil {
				return obj("harness-error", "symlink: "+err.Error())
			}
		}
		if err := ioutil.WriteFile(where, []byte(c18Subst(f.Content, root)), 0644); err != nil {
			return obj("harness-error", "write: "+err.Error())
		}
	}
	env := c18Map(c["env"])
	sw := c18Map(c["switches"])
	saved := map[string]string{}
	savedSet := map[string]bool{}
	for _, k := range []string{"LAYERROOT", "LAYERCONF", "HOME"} {
		saved[k], savedSet[k] = os.LookupEnv(k)
		os.Setenv(k, c18Subst(unhx(env[k]), root))
	}
	savedArg0 := os.Args[0]
	os.Args[0] = c18Subst(unhx(c["argv0"]), root)
	savedWd, _ := os.Getwd()
	cwd := unhx(c["cwd"])
	if cwd == "" {
		cwd = vroot
	}
	if err := os.Chdir(real(cwd)); err != nil {
		return obj("harness-error", "chdir: "+err.Error())
	}
	defer func() {
		os.Chdir(savedWd)
		os.Args[0] = savedArg0
		for k, v := range saved {
			if savedSet[k] {
				os.Setenv(k, v)
			} else {
				os.Unsetenv(k)
			}
		}
	}()
	// config.Load runs in its own goroutine so that a chain walk that never ends is an
	// observation ("hang"), not a stuck check.  A leaked walker stops by itself as soon as
	// the scratch directory is removed (its next open fails).
	swConfig := c18Subst(unhx(sw["config"]), root)
	swBase := c18Subst(unhx(sw["basepath"]), root)
	done := make(chan interface{}, 1)
	go func() {
		done <- guarded(func() interface{} {
			cfg, err := config.Load(swConfig, swBase)
			if err != nil {
				return obj("cls", c18Class(err))
			}
			u := func(s string) string { return hx(c18Unsubst(s, root)) }
			return obj("cls", "ok", "cfg", obj(
				"Basepath", u(cfg.Basepath), "Layerdirs", u(cfg.Layerdirs),
				"LayerBuildRoot", u(cfg.LayerBuildRoot), "LayerBinPkgdir", u(cfg.LayerBinPkgdir),
				"LayerGeneratedir", u(cfg.LayerGeneratedir), "LayerOvfsWorkdir", u(cfg.LayerOvfsWorkdir),
				"LayerOvfsUpperdir", u(cfg.LayerOvfsUpperdir), "Exportdirs", u(cfg.Exportdirs),
				"ExportBinPkgdir", u(cfg.ExportBinPkgdir), "ExportGeneratedir", u(cfg.ExportGeneratedir),
				"ChrootExec", u(cfg.ChrootExec)))
		})
	}()
	timeout := 3 * time.Second
	if c18Hangs >= 3 {
		timeout = 100 * time.Millisecond
	}
	select {
	case r := <-done:
		return r
	case <-time.After(timeout):
		c18Hangs++
		return obj("cls", "hang")
	}
}

// ---------------------------------------------------------------- generator

var c18Keys = []string{"BASEPATH", "LAYERS", "BUILDROOT", "BINPKGS", "GENERATED_FILES", "OVERFS_WORKDIR",
	"OVERFS_UPPERDIR", "EXPORTS", "EXPORT_BINPKGS", "EXPORT_GENERATED_FILES", "CHROOT_EXEC"}

var c18Spaces = []string{" ", "\t", "  ", " \t ", " ", "　", " ", "\u0085", "\v", "\f", " ", " "}

func c18Space(g *Gen, allowEmpty bool) string {
	switch g.Intn(8) {
	case 0, 1, 2:
		if allowEmpty {
			return ""
		}
		return " "
	case 3, 4, 5:
		return " "
	case 6:
		return "\t"
	default:
		return c18Spaces[g.Intn(len(c18Spaces))]
	}
}

func c18KeySpelling(g *Gen, k string) string {
	switch g.Intn(8) {
	case 0, 1, 2:
		return k
	case 3, 4:
		return strings.ToLower(k)
	case 5, 6:
		b := []byte(strings.ToLower(k))
		for i := range b {
			if g.Chance(1, 2) && b[i] >= 'a' && b[i] <= 'z' {
				b[i] -= 32
			}
		}
		return string(b)
	default:
		// the two non-ASCII runes whose upper case is ASCII: ſ → S, ı → I
		s := strings.ToLower(k)
		if g.Chance(1, 2) {
			s = strings.Replace(s, "s", "ſ", 1)
		} else {
			s = strings.Replace(s, "i", "ı", 1)
		}
		return s
	}
}

func c18AbsDir(g *Gen) string {
	p := "/" + g.Pick("srv", "var/lib", "home/builder", "mnt", "base one", "opt") + "/" + g.Pick("lc", "cake", "b2", "root.d", "x y")
	switch g.Intn(10) {
	case 0:
		p += "/"
	case 1:
		p += "/../" + g.Pick("other", "alt")
	case 2:
		p = strings.Replace(p, "/", "//", 1+g.Intn(2))
	case 3:
		p += "/./."
	case 4:
		p = "/" + g.Pick("..", "../..", ".") + p
	}
	return p
}

func c18RelDir(g *Gen, dflt string) string {
	switch g.Intn(10) {
	case 0:
		return dflt
	case 1:
		return "./" + dflt
	case 2:
		return dflt + "/"
	case 3:
		return "../" + g.Pick("shared", "up") + "/" + dflt
	case 4:
		return "a/../" + dflt
	case 5:
		return "sub//" + dflt
	case 6:
		return "."
	case 7:
		return "../../.."
	default:
		return g.Pick("layer_root", "export_root", "my layers", "l", "x/y/z")
	}
}

func c18Value(g *Gen, key string) string {
	switch key {
	case "BASEPATH":
		if g.Chance(1, 25) {
			return c18RelDir(g, "base") // relative base path: must be refused
		}
		return c18AbsDir(g)
	case "LAYERS", "EXPORTS":
		if g.Chance(1, 4) {
			return c18AbsDir(g)
		}
		return c18RelDir(g, map[string]string{"LAYERS": "layers", "EXPORTS": "export"}[key])
	case "CHROOT_EXEC":
		switch g.Intn(24) {
		case 0:
			return "chroot" // relative: refused
		case 1:
			return "/usr//bin/../sbin/chroot"
		case 2:
			return "/sbin/chroot/"
		default:
			return g.Pick("/usr/sbin/chroot", "/sbin/chroot", "/opt/bin/my chroot")
		}
	default:
		switch g.Intn(10) {
		case 0:
			return "a=b"
		case 1:
			return "with space"
		case 2:
			return "x#y"
		case 3:
			return "../rel/./p//q/"
		case 4:
			return "/abs/value"
		case 5:
			return "é ü"
		default:
			return g.Pick("build", "bld", "pkgs", "gen", "overlayfs/work", "overlayfs/upper", "packages", "out")
		}
	}
}

type c18Line struct {
	key, val string
	raw      string // non-empty: literal line (comment, junk)
}

func c18Render(g *Gen, lines []c18Line) string {
	var b strings.Builder
	for i, l := range lines {
		if l.raw != "" || (l.key == "" && l.val == "") {
			b.WriteString(l.raw)
		} else {
			b.WriteString(c18Space(g, true))
			b.WriteString(c18KeySpelling(g, l.key))
			b.WriteString(c18Space(g, true))
			b.WriteString("=")
			b.WriteString(c18Space(g, true))
			b.WriteString(l.val)
			b.WriteString(c18Space(g, true))
		}
		if i < len(lines)-1 || g.Chance(3, 4) {
			if g.Chance(1, 6) {
				b.WriteString("\r")
			}
			b.WriteString("\n")
		}
	}
	return b.String()
}

var c18Comments = []string{"# comment", "// comment", "   # LAYERS = /commented/out", "\t// BASEPATH=/nope", "#", "//", "",
	"   ", "#BOGUS=1", " # nbsp before hash", "//=x"}

// c18FileBody builds the lines of one file.  next = CONFIGFILE value ("" = none).
// density: chance (in 12ths) for every key to be set.
func c18FileBody(g *Gen, next string, density int, junk bool) []c18Line {
	lines := []c18Line{}
	for _, k := range c18Keys {
		if g.Intn(12) < density {
			lines = append(lines, c18Line{key: k, val: c18Value(g, k)})
			if g.Chance(1, 12) { // assigned twice in one file
				lines = append(lines, c18Line{key: k, val: c18Value(g, k)})
			}
		} else if g.Chance(1, 10) {
			lines = append(lines, c18Line{key: k, val: ""}) // known key, empty value: not set
		} else if g.Chance(1, 40) {
			lines = append(lines, c18Line{raw: c18KeySpelling(g, k)}) // known key, no '='
		}
	}
	if next != "" {
		lines = append(lines, c18Line{key: "CONFIGFILE", val: next})
	} else if g.Chance(1, 8) {
		lines = append(lines, c18Line{key: "CONFIGFILE", val: ""})
	}
	g.Shuffle(len(lines), func(a, b int) { lines[a], lines[b] = lines[b], lines[a] })
	for k := g.Intn(4); k > 0; k-- {
		p := g.Intn(len(lines) + 1)
		lines = append(lines[:p], append([]c18Line{{raw: c18Comments[g.Intn(len(c18Comments))]}}, lines[p:]...)...)
	}
	if junk {
		var l c18Line
		switch g.Intn(7) {
		case 0:
			l = c18Line{key: "BOGUS", val: "value"}
		case 1:
			l = c18Line{key: "BOGUS", val: ""} // unknown key, empty value
		case 2:
			l = c18Line{raw: "just some words"} // no '='
		case 3:
			l = c18Line{raw: "=value"} // empty key
		case 4:
			l = c18Line{raw: " = "}
		case 5:
			l = c18Line{key: "LAYERS2", val: "x"}
		default:
			l = c18Line{key: "WORKDIR", val: "overlayfs/workdir"} // the documentation's (wrong) name
		}
		p := g.Intn(len(lines) + 1)
		lines = append(lines[:p], append([]c18Line{l}, lines[p:]...)...)
	}
	return lines
}

type c18World struct {
	files    []c18File
	dirs     map[string]bool
	env      map[string]string
	swConfig string
	swBase   string
	argv0    string
	links    []string // files that are symbolic links to a file kept elsewhere
}

func (w *c18World) addFile(name, content string) {
	w.files = append(w.files, c18File{name, content})
	// every ancestor below /V is a directory of the world
	n := name
	if !path.IsAbs(n) {
		n = vroot + "/" + n
	}
	for d := path.Dir(path.Clean(n)); len(d) > len(vroot); d = path.Dir(d) {
		w.dirs[d] = true
	}
}

func (w *c18World) toCase() Case {
	fl := []interface{}{}
	for _, f := range w.files {
		fl = append(fl, []interface{}{hx(f.Name), hx(f.Content)})
	}
	dl := []string{}
	for d := range w.dirs {
		dl = append(dl, d)
	}
	sort.Strings(dl)
	env := map[string]interface{}{}
	for _, k := range []string{"LAYERROOT", "LAYERCONF", "HOME"} {
		env[k] = hx(w.env[k])
	}
	c := Case{"op": "config.load", "files": fl, "dirs": hxs(dl), "env": env,
		"switches": obj("config", hx(w.swConfig), "basepath", hx(w.swBase)),
		"argv0":    hx(w.argv0), "cwd": hx(vroot)}
	if len(w.links) > 0 {
		c["links"] = hxs(w.links)
	}
	return c
}

func c18FileName(g *Gen, i int) string {
	dir := g.Pick("", "", "etc/", "conf.d/", "home/u/", "a b/")
	n := fmt.Sprintf("%s%s%d.conf", dir, g.Pick("c", "site", "lc", "x y"), i)
	p := vroot + "/" + n
	return p
}

// alias returns another spelling of the same file (the kernel ignores "//" and "/./")
func c18Alias(g *Gen, name string) string {
	rest := strings.TrimPrefix(name, vroot+"/")
	if g.Chance(1, 2) {
		return vroot + "//" + rest
	}
	return vroot + "/./" + rest
}

func genC18World(g *Gen, malformed bool) *c18World {
	w := &c18World{dirs: map[string]bool{}, env: map[string]string{}, argv0: vroot + "/usr/bin/layercake"}
	shape := g.Pick("none", "single", "single", "single", "linear", "linear", "linear", "linear", "linear", "linear",
		"linear", "linear", "linear", "linear", "selfloop", "cycle2", "rho", "rho", "missing", "dirlink", "alias", "relnext")
	n := 0
	switch shape {
	case "single", "selfloop":
		n = 1
	case "linear", "missing", "dirlink", "alias", "relnext":
		n = 1 + g.Intn(5)
	case "cycle2":
		n = 2
	case "rho":
		n = 2 + g.Intn(4)
	}
	names := make([]string, n)
	for i := range names {
		names[i] = c18FileName(g, i)
	}
	how := g.Intn(10)
	if n > 0 {
		switch {
		case how < 6: // -config switch or LAYERCONF
			if g.Chance(1, 6) {
				names[0] = fmt.Sprintf("rel%d.conf", g.Intn(3)) // relative to the cwd /V
			}
		case how < 8:
			names[0] = vroot + "/home/me/.layercake"
		case how < 9:
			names[0] = vroot + "/opt/lc/etc/layercake.conf"
		default:
			names[0] = "etc/layercake.conf" // found as ./etc/layercake.conf
		}
	}
	density := 1 + g.Intn(6)
	if g.Chance(1, 10) {
		density = 12
	}
	junkAt := -1
	if n > 0 && (malformed || g.Chance(1, 40)) {
		junkAt = g.Intn(n)
	}
	for i := 0; i < n; i++ {
		next := ""
		if i+1 < n {
			next = names[i+1]
			if g.Chance(1, 10) {
				next = c18Alias(g, next)
			}
		} else {
			switch shape {
			case "selfloop":
				next = names[0]
			case "cycle2":
				next = names[0]
			case "rho":
				next = names[g.Intn(n)]
			case "missing":
				next = vroot + "/nowhere/missing.conf"
			case "dirlink":
				next = vroot + "/somedir"
				w.dirs[next] = true
			case "alias":
				next = c18Alias(g, names[g.Intn(n)])
			case "relnext":
				next = "relative-next.conf"
				w.addFile(next, c18Render(g, c18FileBody(g, "", density, false)))
			}
		}
		w.addFile(names[i], c18Render(g, c18FileBody(g, next, density, i == junkAt)))
	}
	// how the first file is found
	if n > 0 {
		switch {
		case how < 4:
			w.swConfig = names[0]
		case how < 6:
			w.env["LAYERCONF"] = names[0]
		case how < 8:
			w.env["HOME"] = vroot + "/home/me"
		case how < 9:
			w.argv0 = vroot + "/opt/lc/bin/layercake"
		default:
			w.argv0 = g.Pick("bin/layercake", "layercake", "./layercake")
		}
	}
	// decoys in the search list
	if w.swConfig == "" || g.Chance(1, 4) {
		if w.env["LAYERCONF"] == "" && g.Chance(1, 3) {
			switch g.Intn(3) {
			case 0:
				w.env["LAYERCONF"] = vroot + "/no/such.conf"
			case 1:
				w.env["LAYERCONF"] = vroot + "/somedir"
				w.dirs[vroot+"/somedir"] = true
			default:
				w.env["LAYERCONF"] = vroot + "/other.conf" // wins over everything later in the list
				w.addFile(vroot+"/other.conf", c18Render(g, c18FileBody(g, "", density, false)))
			}
		}
		if w.env["HOME"] == "" && g.Chance(1, 3) {
			w.env["HOME"] = vroot + "/home/nobody"
			if g.Chance(1, 2) {
				w.dirs[vroot+"/home/nobody"] = true
			}
			if g.Chance(1, 4) {
				w.addFile(vroot+"/home/nobody/.layercake", c18Render(g, c18FileBody(g, "", density, false)))
			}
		}
		if g.Chance(1, 6) {
			w.addFile(vroot+"/usr/etc/layercake.conf", c18Render(g, c18FileBody(g, "", density, false)))
		}
	}
	if g.Chance(1, 3) {
		w.swBase = c18Value(g, "BASEPATH")
	}
	if g.Chance(1, 3) {
		w.env["LAYERROOT"] = c18Value(g, "BASEPATH")
	}
	if g.Chance(1, 4) {
		for _, f := range w.files {
			if g.Chance(1, 2) {
				w.links = append(w.links, f.Name)
			}
		}
	}
	// a stray .layercake in the working directory: no candidate of the search names it
	if w.env["HOME"] == "" && g.Chance(1, 6) {
		w.addFile(vroot+"/.layercake", "BASEPATH = "+vroot+"/stray\nLAYERS = stray-layers\n")
	}
	return w
}

func init() {
	ops["config.load"] = runConfigLoad

	ops["cli.switches"] = runCliSwitches
	register("c18", func(g *Gen, tier string, emit func(Case)) {
		// the real binary: the -basepath switch against LAYERROOT, in the spellings main sees
		for _, sp := range []string{"/", "//", "@A", "@A/", "@A//.", "=@A", "=/"} {
			emit(Case{"op": "cli.switches", "basepath": hx(sp)})
		}
		n := 1500
		if tier == "thorough" {
			n = 40000
		}
		for i := 0; i < n; i++ {
			emit(genC18World(g, i%8 == 7).toCase())
		}
	})
}

// runCliSwitches runs the real layercake binary with LAYERROOT naming installation E and the
// -basepath switch naming installation A (or the root directory, which holds none): the
// switch wins, so the listing shows A's layer (or fails) and never E's.
func runCliSwitches(c Case) interface{} {
	bin := os.Getenv("VERIF_LAYERCAKE")
	if bin == "" {
		return obj("harness-error", "VERIF_LAYERCAKE not set")
	}
	scratch := os.Getenv("VERIF_SCRATCH")
	if scratch == "" {
		scratch = os.TempDir()
	}
	dir, err := ioutil.TempDir(scratch, "clisw")
	if err != nil {
		return obj("harness-error", err.Error())
	}
	defer os.RemoveAll(dir)
	for _, inst := range []string{"A", "E"} {
		lp := dir + "/" + inst + "/layers/layer-of-" + inst
		os.MkdirAll(lp+"/build", 0755)
		os.MkdirAll(dir+"/"+inst+"/export", 0755)
		ioutil.WriteFile(lp+"/layerconfig", []byte("import proc /proc /proc\n"), 0644)
		ioutil.WriteFile(dir+"/"+inst+"/default_layerconfig.skel", []byte("import proc /proc /proc\n"), 0644)
	}
	sp := strings.ReplaceAll(unhx(c["basepath"]), "@A", dir+"/A")
	args := []string{"-basepath", sp, "list"}
	if strings.HasPrefix(sp, "=") {
		args = []string{"-basepath" + sp, "list"}
	}
	cmd := exec.Command(bin, args...)
	cmd.Dir = dir
	cmd.Env = []string{"LAYERROOT=" + dir + "/E", "HOME=" + dir, "PATH=/usr/bin:/bin"}
	out, _ := cmd.CombinedOutput()
	return obj("shows_switch_tree", strings.Contains(string(out), "layer-of-A"), "shows_env_tree", strings.Contains(string(out), "layer-of-E"))
}
