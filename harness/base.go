package main

import (
	"path"
	"strings"
)

// Suite "base": Go standard-library primitives the models rely on (trusted-base
// validation: the Lean definitions in Lc/Base are diffed against the real library).

var pathAlphabet = "ab./~$ -"

func genPath(g *Gen) string {
	switch g.Intn(6) {
	case 0:
		return g.From(pathAlphabet, g.Intn(12))
	case 1:
		return "/" + g.From("ab/.", g.Intn(14))
	case 2:
		n := g.Intn(6)
		parts := make([]string, n)
		for i := range parts {
			parts[i] = g.Pick("a", "b", "..", ".", "", "cd", "a.b", "...", "x y")
		}
		p := strings.Join(parts, "/")
		if g.Chance(1, 2) {
			p = "/" + p
		}
		return p
	case 3:
		return g.From("\x00\xff/.a", g.Intn(8))
	default:
		return g.Pick("", "/", ".", "..", "//", "/..", "/.", "a/..", "../..", "/a/b/../../..", "a//b/", "./a")
	}
}

func init() {
	ops["path.clean"] = func(c Case) interface{} { return obj("out", hx(path.Clean(unhx(c["s"])))) }
	ops["path.join"] = func(c Case) interface{} { return obj("out", hx(path.Join(unhxs(c["elems"])...))) }
	ops["path.dir"] = func(c Case) interface{} { return obj("out", hx(path.Dir(unhx(c["s"])))) }
	ops["path.base"] = func(c Case) interface{} { return obj("out", hx(path.Base(unhx(c["s"])))) }
	ops["path.isabs"] = func(c Case) interface{} { return obj("out", path.IsAbs(unhx(c["s"]))) }
	ops["bytes.split"] = func(c Case) interface{} {
		sep := string([]byte{byte(c["sep"].(float64))})
		return obj("out", hxs(strings.Split(unhx(c["s"]), sep)))
	}
	ops["bytes.lt"] = func(c Case) interface{} { return obj("out", unhx(c["a"]) < unhx(c["b"])) }

	register("base", func(g *Gen, tier string, emit func(Case)) {
		n := 400
		if tier == "thorough" {
			n = 20000
		}
		for i := 0; i < n; i++ {
			p := genPath(g)
			emit(Case{"op": "path.clean", "s": hx(p)})
			emit(Case{"op": "path.dir", "s": hx(p)})
			emit(Case{"op": "path.base", "s": hx(p)})
			emit(Case{"op": "path.isabs", "s": hx(p)})
			k := g.Intn(4)
			el := make([]string, k)
			for j := range el {
				el[j] = genPath(g)
			}
			emit(Case{"op": "path.join", "elems": hxs(el)})
			emit(Case{"op": "bytes.split", "s": hx(g.From("a b,", g.Intn(10))), "sep": float64(32)})
			emit(Case{"op": "bytes.lt", "a": hx(g.From("ab\xff", g.Intn(4))), "b": hx(g.From("ab\xff", g.Intn(4)))})
		}
	})
}
