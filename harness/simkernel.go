package main

import (
	"syscall"
	"fmt"
	"strings"
)

// Simulated kernel mount table; mirrors lean/Lc/Model/Kernel.lean exactly (the two are
// compared after every scenario step through the "table" observation).

type kmnt struct {
	ID, Parent                 int
	Dev, Root, Mp, Fstype, Src string
	Lower, Upper, Work         string
}

type simKernel struct {
	mnts      []kmnt
	nextID    int
	nextMinor int
	syslog    [][]interface{} // every syscall issued through the hooks
}

const (
	msRemount = 32
	msBind    = 4096
	msRec     = 16384
)

func newSimKernel() *simKernel { return &simKernel{nextID: 100, nextMinor: 60} }

func pathUnder(p, q string) bool {
	if q == p {
		return true
	}
	if p == "/" {
		return strings.HasPrefix(q, "/")
	}
	return strings.HasPrefix(q, p+"/")
}

// isRootIn: m hangs below no other entry of the table
func (k *simKernel) isRootIn(m *kmnt) bool {
	for i := range k.mnts {
		if k.mnts[i].ID == m.Parent && k.mnts[i].ID != m.ID {
			return false
		}
	}
	return true
}

// startOf: the root mount containing the path (longest mountpoint, last among equals)
func (k *simKernel) startOf(path string) *kmnt {
	var best *kmnt
	for i := range k.mnts {
		m := &k.mnts[i]
		if k.isRootIn(m) && pathUnder(m.Mp, path) {
			if best == nil || len(best.Mp) <= len(m.Mp) {
				best = m
			}
		}
	}
	return best
}

// stepFrom: one step of the lookup from mount c towards path: a mount stacked on c's own
// root (the last attached), otherwise the child whose mountpoint comes first on the way
// (the shortest, the last attached among equals)
func (k *simKernel) stepFrom(c *kmnt, path string) *kmnt {
	var stacked *kmnt
	for i := range k.mnts {
		x := &k.mnts[i]
		if x.Parent == c.ID && x.ID != c.ID && x.Mp == c.Mp {
			stacked = x
		}
	}
	if stacked != nil {
		return stacked
	}
	var best *kmnt
	for i := range k.mnts {
		x := &k.mnts[i]
		if x.Parent == c.ID && x.ID != c.ID && pathUnder(c.Mp, x.Mp) && pathUnder(x.Mp, path) {
			if best == nil || len(x.Mp) <= len(best.Mp) {
				best = x
			}
		}
	}
	return best
}

// resolve: the mount a lookup of path ends in (Kernel.resolve of the Lean model: walk from
// the root mount, at most len(mnts) steps)
func (k *simKernel) resolve(path string) *kmnt {
	c := k.startOf(path)
	if c == nil {
		return nil
	}
	for fuel := len(k.mnts); fuel > 0; fuel-- {
		n := k.stepFrom(c, path)
		if n == nil {
			return c
		}
		c = n
	}
	return c
}

// mountedAt: mp is a mountpoint and can be reached
func (k *simKernel) mountedAt(mp string) *kmnt {
	m := k.resolve(mp)
	if m != nil && m.Mp == mp {
		return m
	}
	return nil
}

// isBelow: c hangs (directly or further down) below the mount with id top
func isBelow(mnts []kmnt, top int, c kmnt) bool {
	for fuel := len(mnts); fuel > 0; fuel-- {
		if c.ID == top {
			return false
		}
		if c.Parent == top {
			return true
		}
		found := false
		for _, x := range mnts {
			if x.ID == c.Parent && x.ID != c.ID {
				c = x
				found = true
				break
			}
		}
		if !found {
			return false
		}
	}
	return false
}

func relTail(base, path string) string {
	if base == "/" {
		if path == "/" {
			return ""
		}
		return path
	}
	if len(path) < len(base) {
		return ""
	}
	return path[len(base):]
}

func joinRoot(root, tail string) string {
	if tail == "" {
		return root
	}
	if root == "/" {
		return tail
	}
	return root + tail
}

func (k *simKernel) add(m kmnt) {
	parent := 0
	if p := k.resolve(m.Mp); p != nil {
		parent = p.ID
	}
	m.ID = k.nextID
	m.Parent = parent
	k.nextID++
	k.mnts = append(k.mnts, m)
}

func parseOvl(data string) (lower, upper, work string) {
	for _, part := range strings.Split(data, ",") {
		kv := strings.SplitN(part, "=", 2)
		if len(kv) > 1 {
			switch kv[0] {
			case "lowerdir":
				lower = kunescape(kv[1])
			case "upperdir":
				upper = kunescape(kv[1])
			case "workdir":
				work = kunescape(kv[1])
			}
		}
	}
	return
}

// kunescape: the same decoding the Lean kernel model applies to option data
func kunescape(s string) string {
	out := make([]byte, 0, len(s))
	for p := 0; p < len(s); p++ {
		c := s[p]
		if c == '\\' && p+3 < len(s) {
			d1, d2, d3 := s[p+1]-'0', s[p+2]-'0', s[p+3]-'0'
			if d1 < 4 && d2 < 8 && d3 < 8 {
				c = d1<<6 | d2<<3 | d3
				p += 3
			}
		}
		out = append(out, c)
	}
	return string(out)
}

func (k *simKernel) mount(src, tgt, fstype string, flags uintptr, data string) error {
	k.syslog = append(k.syslog, []interface{}{"mount", hx(src), hx(tgt), hx(fstype), float64(flags), hx(data)})
	f := int(flags)
	if f&msRemount != 0 || (f/131072)%16 != 0 {
		if k.mountedAt(tgt) == nil {
			return syscall.EINVAL
		}
		return nil
	}
	if f&msBind != 0 {
		m := k.resolve(src)
		if m == nil {
			return syscall.ENODEV
		}
		snapshot := append([]kmnt(nil), k.mnts...)
		top := m.ID
		b := *m
		b.Root = joinRoot(m.Root, relTail(m.Mp, src))
		b.Mp = tgt
		k.add(b)
		if f&msRec != 0 {
			for _, c := range snapshot {
				if isBelow(snapshot, top, c) && pathUnder(src, c.Mp) && c.Mp != src {
					cc := c
					cc.Mp = joinRoot(tgt, relTail(src, c.Mp))
					k.add(cc)
				}
			}
		}
		return nil
	}
	if fstype == "overlay" {
		lower, upper, work := parseOvl(data)
		dev := fmt.Sprintf("0:%d", k.nextMinor)
		k.nextMinor++
		k.add(kmnt{Dev: dev, Root: "/", Mp: tgt, Fstype: fstype, Src: src, Lower: lower, Upper: upper, Work: work})
		return nil
	}
	if fstype == "proc" {
		for _, p := range k.mnts {
			if p.Fstype == "proc" {
				pp := p
				pp.Root = "/"
				pp.Mp = tgt
				pp.Src = src
				k.add(pp)
				return nil
			}
		}
	}
	dev := fmt.Sprintf("0:%d", k.nextMinor)
	k.nextMinor++
	k.add(kmnt{Dev: dev, Root: "/", Mp: tgt, Fstype: fstype, Src: src})
	return nil
}

func (k *simKernel) umount(tgt string, flags int) error {
	k.syslog = append(k.syslog, []interface{}{"umount", hx(tgt), float64(flags)})
	m := k.mountedAt(tgt)
	if m == nil {
		return syscall.EINVAL
	}
	id := m.ID
	for _, c := range k.mnts {
		if c.Parent == id {
			return syscall.EBUSY
		}
	}
	out := k.mnts[:0:0]
	for _, c := range k.mnts {
		if c.ID != id {
			out = append(out, c)
		}
	}
	k.mnts = out
	return nil
}

func (k *simKernel) mountinfo() string {
	var b strings.Builder
	for _, m := range k.mnts {
		super := "rw"
		if m.Fstype == "overlay" {
			super = "rw,lowerdir=" + mangle(m.Lower, optEsc) + ",upperdir=" + mangle(m.Upper, optEsc) +
				",workdir=" + mangle(m.Work, optEsc)
		}
		fmt.Fprintf(&b, "%d %d %s %s %s rw - %s %s %s\n", m.ID, m.Parent, m.Dev, mangle(m.Root, pathEsc),
			mangle(m.Mp, pathEsc), m.Fstype, mangle(m.Src, srcEsc), super)
	}
	return b.String()
}

func (k *simKernel) tableJSON(unvirt func(string) string) []interface{} {
	out := []interface{}{}
	for _, m := range k.mnts {
		out = append(out, []interface{}{float64(m.ID), float64(m.Parent), hx(m.Dev), hx(unvirt(m.Root)),
			hx(unvirt(m.Mp)), hx(m.Fstype), hx(unvirt(m.Src)), hx(unvirt(m.Lower)), hx(unvirt(m.Upper)), hx(unvirt(m.Work))})
	}
	return out
}
