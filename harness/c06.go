package main

// C06 / C07: stage tarballs.  A case is a self-contained *description* of a build root
// (objects with type, mode, owner, mtime, content, link target, device numbers, xattrs,
// hard-link groups), of an installed-package database with a selection, of the
// stagemaker flags and of an add-files script.  Running a case
//   1. materialises the root under $VERIF_SCRATCH (unique directory, removed afterwards),
//   2. lstat-snapshots what was really created ("fs": the source data the property
//      talks about, keyed by symbolic absolute paths /R/... and /X/...),
//   3. expands the pipeline of cmd/stagemaker.getStageFileList into primitive steps
//      over the member map ("steps", for the Lean model) and into the set-level
//      description the specification needs ("cats", "ov"),
//   4. runs the real stagemaker binary and reads the archive back with archive/tar.
// Suites: "c06" (member sequence) and "c07" (member headers/content; thorough tier also
// extracts with GNU tar and compares gzip/bzip2/xz output).

import (
	"fmt"
	"path"
	"sort"
	"strings"
)

// ---------------------------------------------------------------- descriptions

type fobj struct {
	P       string // absolute path inside its base ("/etc/passwd")
	T       string // f d l c b p h(ard link to Link)
	Mode    uint32 // permission bits (incl. suid/sgid/sticky)
	Uid     uint32
	Gid     uint32
	Mtime   int64
	HasData bool
	Data    string
	Size    int
	Seed    int64
	Link    string
	Maj     uint32
	Min     uint32
	Xattrs  [][2]string
}

func (o fobj) toJSON() map[string]interface{} {
	m := obj("p", hx(o.P), "t", o.T, "mode", o.Mode, "uid", o.Uid, "gid", o.Gid, "mtime", o.Mtime)
	if o.HasData {
		m["data"] = hx(o.Data)
	} else if o.T == "f" {
		m["size"] = o.Size
		m["seed"] = o.Seed
	}
	if o.T == "l" || o.T == "h" {
		m["link"] = hx(o.Link)
	}
	if o.T == "c" || o.T == "b" {
		m["maj"] = o.Maj
		m["min"] = o.Min
	}
	if len(o.Xattrs) > 0 {
		xs := []interface{}{}
		for _, kv := range o.Xattrs {
			xs = append(xs, []interface{}{hx(kv[0]), hx(kv[1])})
		}
		m["xattrs"] = xs
	}
	return m
}

func num(v interface{}) int64 {
	switch x := v.(type) {
	case float64:
		return int64(x)
	case int:
		return int64(x)
	case int64:
		return x
	case uint32:
		return int64(x)
	}
	return 0
}

func fobjOf(v interface{}) fobj {
	m, _ := v.(map[string]interface{})
	o := fobj{P: unhx(m["p"]), Mode: uint32(num(m["mode"])), Uid: uint32(num(m["uid"])),
		Gid: uint32(num(m["gid"])), Mtime: num(m["mtime"]), Link: unhx(m["link"]),
		Maj: uint32(num(m["maj"])), Min: uint32(num(m["min"])), Size: int(num(m["size"])), Seed: num(m["seed"])}
	o.T, _ = m["t"].(string)
	if d, ok := m["data"]; ok {
		o.HasData = true
		o.Data = unhx(d)
	}
	if xs, ok := m["xattrs"].([]interface{}); ok {
		for _, x := range xs {
			p, _ := x.([]interface{})
			if len(p) == 2 {
				o.Xattrs = append(o.Xattrs, [2]string{unhx(p[0]), unhx(p[1])})
			}
		}
	}
	return o
}

type centry struct{ T, P, Targ string }

type pkgDesc struct {
	Cat, PV  string
	Sel      bool
	Contents []centry
}

func (p pkgDesc) toJSON() map[string]interface{} {
	cs := []interface{}{}
	for _, c := range p.Contents {
		cs = append(cs, obj("t", c.T, "p", hx(c.P), "targ", hx(c.Targ)))
	}
	return obj("cat", p.Cat, "pv", p.PV, "sel", p.Sel, "contents", cs)
}

func pkgOf(v interface{}) pkgDesc {
	m, _ := v.(map[string]interface{})
	p := pkgDesc{}
	p.Cat, _ = m["cat"].(string)
	p.PV, _ = m["pv"].(string)
	p.Sel, _ = m["sel"].(bool)
	cs, _ := m["contents"].([]interface{})
	for _, c := range cs {
		cm, _ := c.(map[string]interface{})
		t, _ := cm["t"].(string)
		p.Contents = append(p.Contents, centry{t, unhx(cm["p"]), unhx(cm["targ"])})
	}
	return p
}

type rootDesc struct {
	Objs     []fobj
	Ext      []fobj
	Pkgs     []pkgDesc
	NoVDB    bool
	EmptyDev bool
	AddFiles []string
}

func (d rootDesc) toJSON() map[string]interface{} {
	os_, es, ps := []interface{}{}, []interface{}{}, []interface{}{}
	for _, o := range d.Objs {
		os_ = append(os_, o.toJSON())
	}
	for _, o := range d.Ext {
		es = append(es, o.toJSON())
	}
	for _, p := range d.Pkgs {
		ps = append(ps, p.toJSON())
	}
	return obj("objs", os_, "ext", es, "pkgs", ps, "novdb", d.NoVDB, "emptydev", d.EmptyDev,
		"addfiles", hxs(d.AddFiles))
}

func descOf(v interface{}) rootDesc {
	m, _ := v.(map[string]interface{})
	d := rootDesc{}
	if l, ok := m["objs"].([]interface{}); ok {
		for _, x := range l {
			d.Objs = append(d.Objs, fobjOf(x))
		}
	}
	if l, ok := m["ext"].([]interface{}); ok {
		for _, x := range l {
			d.Ext = append(d.Ext, fobjOf(x))
		}
	}
	if l, ok := m["pkgs"].([]interface{}); ok {
		for _, x := range l {
			d.Pkgs = append(d.Pkgs, pkgOf(x))
		}
	}
	d.NoVDB, _ = m["novdb"].(bool)
	d.EmptyDev, _ = m["emptydev"].(bool)
	d.AddFiles = unhxs(m["addfiles"])
	return d
}

// ---------------------------------------------------------------- generator

type rb struct {
	g    *Gen
	objs []fobj
	idx  map[string]int
}

var oddModesF = []uint32{0644, 0644, 0644, 0600, 0755, 0755, 04755, 02755, 06711, 0640, 0444, 0400, 01644, 0}
var oddModesD = []uint32{0755, 0755, 0755, 0700, 01777, 02775, 0750, 0711}
var oddIDs = []uint32{0, 0, 0, 0, 1, 5, 6, 250, 1000, 65534, 3000000}
var oddTimes = []int64{0, 1, 1234567890, 1500000000, 1600000001, 2147483647, 2147483653, 8589934600, 946684800}

func (b *rb) has(p string) bool { _, ok := b.idx[p]; return ok }

func (b *rb) attrs(o *fobj, dir bool) {
	g := b.g
	if dir {
		o.Mode = oddModesD[g.Intn(len(oddModesD))]
	} else {
		o.Mode = oddModesF[g.Intn(len(oddModesF))]
	}
	if g.Chance(1, 3) {
		o.Uid = oddIDs[g.Intn(len(oddIDs))]
	}
	if g.Chance(1, 3) {
		o.Gid = oddIDs[g.Intn(len(oddIDs))]
	}
	if g.Chance(1, 2) {
		o.Mtime = oddTimes[g.Intn(len(oddTimes))]
	} else {
		o.Mtime = 1400000000 + int64(g.Intn(200000000))
	}
}

func (b *rb) push(o fobj) {
	if b.has(o.P) {
		return
	}
	b.idx[o.P] = len(b.objs)
	b.objs = append(b.objs, o)
}

func (b *rb) dir(p string) {
	if b.has(p) {
		return
	}
	if p != "/" {
		b.dir(path.Dir(p))
	}
	o := fobj{P: p, T: "d"}
	b.attrs(&o, true)
	if p == "/" {
		o.Mode = 0755
	}
	b.push(o)
}

func (b *rb) file(p string) {
	if b.has(p) {
		return
	}
	b.dir(path.Dir(p))
	o := fobj{P: p, T: "f"}
	b.attrs(&o, false)
	o.Size = []int{0, 1, 17, 100, 511, 512, 513, 5000, 70000}[b.g.Intn(9)]
	o.Seed = int64(b.g.Intn(1 << 30))
	if b.g.Chance(1, 6) {
		o.Xattrs = b.genXattrs()
	}
	b.push(o)
}

func (b *rb) text(p, data string) {
	if b.has(p) {
		return
	}
	b.dir(path.Dir(p))
	o := fobj{P: p, T: "f", HasData: true, Data: data, Mode: 0644, Mtime: 1500000000 + int64(b.g.Intn(1000))}
	b.push(o)
}

func (b *rb) sym(p, target string) {
	if b.has(p) {
		return
	}
	b.dir(path.Dir(p))
	o := fobj{P: p, T: "l", Link: target, Mode: 0777}
	if b.g.Chance(1, 3) {
		o.Uid = oddIDs[b.g.Intn(len(oddIDs))]
		o.Gid = oddIDs[b.g.Intn(len(oddIDs))]
	}
	o.Mtime = 1400000000 + int64(b.g.Intn(200000000))
	b.push(o)
}

func (b *rb) hard(p, src string) {
	if b.has(p) || !b.has(src) {
		return
	}
	b.dir(path.Dir(p))
	b.push(fobj{P: p, T: "h", Link: src})
}

func (b *rb) node(p, t string, maj, min uint32) {
	if b.has(p) {
		return
	}
	b.dir(path.Dir(p))
	o := fobj{P: p, T: t, Maj: maj, Min: min}
	b.attrs(&o, false)
	b.push(o)
}

func (b *rb) genXattrs() [][2]string {
	g := b.g
	switch g.Intn(6) {
	case 0:
		return [][2]string{{"user.comment", "hello"}}
	case 1:
		return [][2]string{{"user.a", ""}, {"trusted.verif", "\x00\x01\xffbin"}, {"user.mime_type", "text/plain"}}
	case 2: // value larger than getXattrs' 1024-byte buffer
		return [][2]string{{"user.big", strings.Repeat("v", 1500+g.Intn(500))}}
	case 3: // name list larger than the 256-byte buffer
		xs := [][2]string{}
		for i := 0; i < 12; i++ {
			xs = append(xs, [2]string{fmt.Sprintf("user.long_attribute_name_number_%02d_xxxxxxxx", i), fmt.Sprint(i)})
		}
		return xs
	case 4:
		return [][2]string{{"security.capability", "\x01\x00\x00\x02\x00\x20\x00\x00\x00\x00\x00\x00\x00\x00\x00\x00\x00\x00\x00\x00"}}
	default:
		return [][2]string{{"user.k", g.From("abc\x00\n =", 1+g.Intn(20))}}
	}
}

var oddNames = []string{"with space", "quo'te", "dq\"x", "st*ar", "\xc3\xbcml", ".hidden", "a", "a.b", "a-b",
	"a b", "a0", "A", "#hash", "semi;colon", "dollar$x", "back\\slash", "tab\there", "q?mark", "br[ack]et", "-dash", "eq=ual", "x -y", "trail ", " lead", "two  blanks", "trail2  "}

func (b *rb) oddName() string { return oddNames[b.g.Intn(len(oddNames))] }

func longTarget(g *Gen, n int) string {
	s := "../"
	for len(s) < n {
		s += g.Pick("aaaaaaaa/", "bb/", "some-long-directory-name/", "x/")
	}
	return s[:n-1] + "z"
}

var pkgNames = []string{"alpha", "beta", "gamma", "delta", "eps", "zeta"}

// genRoot builds a description.  flavour steers which region is stressed.
func genRoot(g *Gen, flavour int) rootDesc {
	b := &rb{g: g, idx: map[string]int{}}
	b.dir("/")
	// Appendix D skeleton
	for _, f := range []string{"csh.env", "fstab", "group", "gshadow", "ld.so.cache", "ld.so.conf", "passwd", "profile.env", "shadow"} {
		b.file("/etc/" + f)
	}
	b.file("/etc/udev/hwdb.bin")
	b.file("/usr/bin/c89")
	b.file("/usr/bin/c99")
	b.file("/usr/lib64/gconv/gconv-modules.cache")
	b.file("/usr/share/info/dir")
	if g.Chance(1, 2) {
		b.file("/usr/share/zoneinfo/UTC")
		b.sym("/etc/localtime", "../usr/share/zoneinfo/UTC")
	} else {
		b.file("/etc/localtime")
	}
	b.file("/etc/env.d/00basic")
	b.file("/etc/ld.so.conf.d/05gcc.conf")
	b.file("/etc/xml/catalog")
	b.file("/usr/local/share/readme")
	b.file("/usr/share/binutils-data/x86_64/ld")
	b.file("/usr/share/gcc-data/x86_64/info")
	b.file("/var/cache/edb/counter")
	b.dir("/var/lib/gentoo/news")
	b.file("/var/lib/portage/world")
	b.sym("/var/run", g.Pick("../run", "/run"))
	if g.Chance(1, 3) {
		b.file("/usr/sbin/fix_libtool_files.sh")
	}
	if g.Chance(1, 3) {
		b.dir("/usr/tmp")
	}
	if g.Chance(1, 3) {
		b.dir("/proc")
		b.dir("/dev")
	}

	// packages
	npk := 2 + g.Intn(4)
	perm := g.Perm(len(pkgNames))
	pkgs := []pkgDesc{}
	selFiles := []string{} // existing non-directory names recorded by selected packages
	selAny := []string{}   // existing names (any type) recorded by selected packages
	var lastObj string     // a recorded regular file (hard-link source candidate)
	for i := 0; i < npk; i++ {
		pn := pkgNames[perm[i]]
		p := pkgDesc{Cat: g.Pick("sys-apps", "app-misc", "dev-libs"), PV: pn + "-" + g.Pick("1.0", "2.3-r1", "0.9_p2"), Sel: i == 0 || g.Chance(1, 2)}
		rec := func(t, name, targ string, exists bool) {
			p.Contents = append(p.Contents, centry{t, name, targ})
			if p.Sel && exists {
				selAny = append(selAny, name)
				if t != "dir" {
					selFiles = append(selFiles, name)
				}
			}
		}
		n := 3 + g.Intn(8)
		for k := 0; k < n; k++ {
			var base string
			switch g.Intn(6) {
			case 0:
				base = "/usr/bin"
			case 1:
				base = "/usr/lib64"
			case 2:
				base = "/usr/share/doc/" + p.PV
			case 3:
				base = "/etc/" + pn
			case 4:
				base = "/opt/" + b.oddName()
			default:
				base = "/usr/lib/" + pn + "/" + b.oddName()
			}
			name := base + "/" + g.Pick(pn+"-tool", "lib"+pn+".so.1", "README", "conf", b.oddName(), b.oddName())
			absent := g.Chance(1, 8)
			switch g.Intn(10) {
			case 0, 1: // symlink
				// targets as they are, however they are spelt: a trailing slash, "./", "//", an
				// inner "..", and one containing the " -> " that separates name and target in CONTENTS
				targ := g.Pick("lib"+pn+".so.1", "../bin/c89", "/etc/passwd", "nowhere", b.oddName(),
					"../lib/", "./lib"+pn+".so.1", "..//bin//c89", "x/../nowhere", "a -> b", "/opt/x -> y/z")
				if targ == path.Base(name) {
					targ = "../../usr/bin/c89"
				}
				if flavour == 2 && g.Chance(1, 2) {
					targ = longTarget(g, []int{255, 256, 257, 300, 1000, 4000}[g.Intn(6)])
				}
				if !absent {
					b.sym(name, targ)
				}
				if !b.has(name) || b.objs[b.idx[name]].T == "l" {
					rec("sym", name, targ, !absent)
				}
			case 2: // directory entry
				if !absent {
					b.dir(name)
				}
				if !b.has(name) || b.objs[b.idx[name]].T == "d" {
					rec("dir", name, "", !absent)
				}
			case 3: // hard link to an earlier recorded file
				if lastObj != "" && !b.has(name) && !absent {
					b.hard(name, lastObj)
					rec("obj", name, "", true)
					break
				}
				fallthrough
			default:
				if !absent {
					b.file(name)
				}
				if !b.has(name) || b.objs[b.idx[name]].T == "f" || b.objs[b.idx[name]].T == "h" {
					rec("obj", name, "", !absent)
					if !absent && b.has(name) && b.objs[b.idx[name]].T == "f" {
						lastObj = name
					}
				}
			}
			if g.Chance(1, 3) {
				rec("dir", base, "", b.has(base))
			}
		}
		// names shared with, or stolen from, other packages / the built-in lists
		if i > 0 && g.Chance(1, 2) {
			prev := pkgs[g.Intn(len(pkgs))]
			if len(prev.Contents) > 0 {
				c := prev.Contents[g.Intn(len(prev.Contents))]
				dup := false
				for _, x := range p.Contents {
					dup = dup || x.P == c.P
				}
				if !dup {
					rec(c.T, c.P, c.Targ, b.has(c.P))
				}
			}
		}
		if g.Chance(1, 5) {
			nm := g.Pick("/etc/fstab", "/etc/env.d/00basic", "/usr/bin/c89", "/var/lib/portage/world", "/usr/local/share/readme")
			dup := false
			for _, x := range p.Contents {
				dup = dup || x.P == nm
			}
			if !dup {
				rec("obj", nm, "", true)
			}
		}
		pkgs = append(pkgs, p)
	}
	// VDB + profile
	var profLines []string
	for _, p := range pkgs {
		d := "/var/db/pkg/" + p.Cat + "/" + p.PV
		lines := []string{}
		for _, c := range p.Contents {
			switch c.T {
			case "dir":
				lines = append(lines, "dir "+c.P)
			case "obj":
				lines = append(lines, "obj "+c.P+" d41d8cd98f00b204e9800998ecf8427e 1500000000")
			case "sym":
				lines = append(lines, "sym "+c.P+" -> "+c.Targ+" 1500000000")
			}
		}
		b.text(d+"/CONTENTS", strings.Join(lines, "\n")+"\n")
		b.text(d+"/SLOT", "0\n")
		if g.Chance(1, 2) {
			b.text(d+"/USE", "abi_x86_64 elibc_glibc\n")
		}
		if g.Chance(1, 3) {
			b.file(d + "/environment.bz2")
		}
		if g.Chance(1, 4) {
			b.file(d + "/sub dir/" + b.oddName())
		}
		if p.Sel {
			nameOnly := p.PV[:strings.Index(p.PV, "-")]
			profLines = append(profLines, "*"+p.Cat+"/"+nameOnly)
		}
	}
	profDir := "/etc/portage/make.profile"
	if g.Chance(1, 3) {
		profDir = "/var/db/repos/gentoo/profiles/verif"
		b.dir(profDir)
		b.sym("/etc/portage/make.profile", "../../var/db/repos/gentoo/profiles/verif")
	}
	b.text(profDir+"/packages", "# system set\n"+strings.Join(profLines, "\n")+"\n")

	// unrecorded extras
	if len(selFiles) > 0 {
		for k := g.Intn(4); k > 0; k-- { // symlinks (and chains) to staged files
			t := selFiles[g.Intn(len(selFiles))]
			ln := g.Pick("/usr/lib/", "/opt/links/", "/etc/alt/", "/") + "ln" + fmt.Sprint(k) + g.Pick("", " x", "*")
			chain := 1 + g.Intn(6)
			if (flavour != 3 || g.Chance(2, 3)) && chain > 5 {
				chain = 5
			}
			if o := b.objs[b.idx[t]]; o.T == "l" && chain > 2 {
				chain = 2 // the target is a link itself: keep the total within MaxSymlinkChain
			}
			prev := t
			for c := 0; c < chain; c++ {
				nm := ln
				if c < chain-1 {
					nm = fmt.Sprintf("%s.hop%d", ln, c)
				}
				if g.Chance(1, 2) && path.Dir(nm) == path.Dir(prev) {
					b.sym(nm, path.Base(prev))
				} else {
					b.sym(nm, prev)
				}
				prev = nm
			}
		}
	}
	for k := g.Intn(3); k > 0; k-- {
		b.sym("/usr/share/dangling"+fmt.Sprint(k), g.Pick("/nonexistent", "../gone", "x/y"))
	}
	for k := g.Intn(3); k > 0; k-- {
		b.file("/home/user/" + b.oddName())
		b.file("/usr/unrecorded/" + b.oddName() + "/f")
	}
	// things that enter through the recursive built-in globs
	if g.Chance(1, 2) || flavour == 1 {
		b.node("/usr/local/devs/cdev", "c", uint32(g.Pick2(1, 4, 136, 250, 4095)), uint32(g.Pick2(0, 3, 255, 256, 300, 65535, 1048575)))
		b.node("/usr/local/devs/bdev", "b", uint32(g.Pick2(8, 259, 7, 4095)), uint32(g.Pick2(0, 1, 16, 255, 256, 4660, 1048575)))
	}
	if g.Chance(1, 3) {
		b.sym("/usr/local/"+b.oddName(), longTarget(g, []int{100, 255, 256, 257, 300, 1000}[g.Intn(6)]))
	}
	if g.Chance(1, 3) {
		b.file("/etc/portage/" + b.oddName() + "/" + b.oddName())
	}
	if g.Chance(1, 3) && lastObj != "" {
		b.hard("/usr/local/hl-"+b.oddName(), lastObj)
	}
	if g.Chance(1, 3) { // hard-link group that lives entirely in a globbed directory
		b.file("/usr/local/grp/one")
		b.hard("/usr/local/grp/two", "/usr/local/grp/one")
		b.hard("/usr/local/grp/a-first", "/usr/local/grp/one")
	}
	if flavour == 3 && g.Chance(1, 6) {
		b.node("/usr/local/fifo", "p", 0, 0)
	}
	if g.Chance(1, 4) && len(selFiles) > 0 { // symlink whose target carries xattrs
		t := selFiles[g.Intn(len(selFiles))]
		if o := b.objs[b.idx[t]]; o.T == "f" && len(o.Xattrs) == 0 {
			b.objs[b.idx[t]].Xattrs = [][2]string{{"user.on_target", "1"}}
		}
		b.sym("/usr/local/to-xattr", t)
	}

	if g.Chance(1, 4) && len(selFiles) > 0 { // symlink carrying an extended attribute of its own
		b.sym("/usr/local/own-xattr", selFiles[g.Intn(len(selFiles))])
		b.objs[b.idx["/usr/local/own-xattr"]].Xattrs = [][2]string{{"trusted.own", b.oddName()}}
	}

	d := rootDesc{Pkgs: pkgs, NoVDB: g.Chance(1, 4), EmptyDev: g.Chance(1, 2)}
	// add-files script
	ext := &rb{g: g, idx: map[string]int{}}
	ext.dir("/")
	lines := []string{}
	q := func(s string) string {
		if strings.ContainsAny(s, " \t") || strings.ContainsAny(s, "'\"") {
			if !strings.Contains(s, "\"") {
				return "\"" + s + "\""
			}
			return "'" + s + "'"
		}
		return s
	}
	usable := func(s string) bool { // expressible in our add-files grammar
		return !strings.ContainsAny(s, "*\\\n") && !(strings.Contains(s, "'") && strings.Contains(s, "\""))
	}
	nlines := g.Intn(6)
	if flavour == 0 {
		nlines = g.Intn(3)
	}
	for k := 0; k < nlines; k++ {
		switch g.Intn(15) {
		case 0: // existing unrecorded file
			b.file("/home/user/notes" + fmt.Sprint(k))
			lines = append(lines, "file /home/user/notes"+fmt.Sprint(k)+g.Pick("", " mod=0600", " uid=7", " gid=8", " mod=u+x", " mod=a-w uid=3:4", " mod=a-x,u+x", " mod=-r,u+r", " mod=a-rwx,u+rw,g+r", " mod=u+s,a-s,g+s", " uid=250:0", " uid=0:0"))
		case 1: // below a directory nobody has (defect f)
			ext.file("/payload" + fmt.Sprint(k))
			lines = append(lines, "file "+q("/newdir"+fmt.Sprint(k)+"/sub "+g.Pick("x", "y")+"/file")+" src=$EXT/payload"+fmt.Sprint(k))
		case 2:
			lines = append(lines, "file /etc/copy-of-passwd src=$$stageroot/etc/passwd"+g.Pick("", " mod=0400", " mod=a-r,u+r uid=250:0"))
		case 3:
			lines = append(lines, "dir /synth"+fmt.Sprint(k)+g.Pick("", "", " mod=0750", " uid=5:7", " gid=9 mod=01777"))
		case 4:
			lines = append(lines, "dir /synth"+fmt.Sprint(k)+"/deeper/still"+g.Pick("", " mod=0700"))
		case 5:
			lines = append(lines, fmt.Sprintf("node /dev/verif%d dev=%s%d:%d%s", k, g.Pick("c", "b"), g.Pick2(1, 4, 259, 4095),
				g.Pick2(0, 7, 255, 256, 300, 70000, 1048575), g.Pick("", " mod=0600", " gid=6 mod=0660")))
		case 6:
			if b.has("/usr/local/devs/cdev") {
				lines = append(lines, g.Pick("node /usr/local/devs/cdev", "node /dev/viasrc src=$$stageroot/usr/local/devs/bdev", "tbd /usr/local/devs/bdev",
					"node /dev/ext-node src=$$stageroot/usr/local/devs/cdev mod=0666"))
			}
		case 7:
			lines = append(lines, "symlink "+q("/opt/lnk "+fmt.Sprint(k))+" targ="+g.Pick("/some/where", "../rel", "plain-target"))
		case 8:
			lines = append(lines, "tbd /absent"+fmt.Sprint(k)+" absent=skip")
		case 9: // omit a staged non-directory
			if len(selFiles) > 0 {
				t := selFiles[g.Intn(len(selFiles))]
				if usable(t) {
					lines = append(lines, "omit "+q(t))
				}
			}
		case 10: // wildcard omit
			if len(selFiles) > 0 {
				t := selFiles[g.Intn(len(selFiles))]
				dir, base := path.Dir(t), path.Base(t)
				if usable(dir) && usable(base) && !strings.ContainsAny(t, "[?") {
					pat := base[:1] + "*"
					if g.Chance(1, 3) {
						pat = "*" + base[len(base)-1:]
					}
					// never a pattern that would remove a non-empty directory
					ok := true
					for _, o := range b.objs {
						if path.Dir(o.P) == dir && o.T == "d" {
							if m, _ := path.Match(pat, path.Base(o.P)); m {
								ok = false
							}
						}
					}
					if ok {
						lines = append(lines, "omit "+q(dir+"/"+pat))
					}
				}
			}
		case 11: // wildcard add
			b.file("/srv/data/one")
			b.file("/srv/data/two words")
			b.file("/srv/data/sub/three")
			b.sym("/srv/data/lnk", "one")
			if g.Chance(1, 2) {
				// directories whose own names look like glob patterns: the recursive expansion of a
				// `dir` wildcard line must take them literally
				b.file("/srv/data/site[1]/inner")
				b.file("/srv/data/odd[name/x y")
				b.file("/srv/data/sub/q?/deep*er/f")
			}
			lines = append(lines, g.Pick("file /srv/data/*", "dir /srv/*", "dir /srv/data/*", "file /srv/data/o* mod=0444", "tbd /srv/data/t*"))
		case 12: // wildcard source, flat and with a nested directory
			ext.file("/many/f1")
			ext.file("/many/f2 x")
			if g.Chance(1, 2) {
				lines = append(lines, "file /copies src=$EXT/many/*")
			} else {
				ext.file("/many/deeper/f3")
				ext.file("/many/deeper/still/f1")
				lines = append(lines, "dir /copies src=$EXT/many/*")
			}
		case 14: // names that are not clean paths
			b.file("/home/user/unclean" + fmt.Sprint(k))
			lines = append(lines, g.Pick("dir /uncl"+fmt.Sprint(k)+"/", "file /home/user//unclean"+fmt.Sprint(k), "file /home/./user/unclean"+fmt.Sprint(k),
				"dir /uncl"+fmt.Sprint(k)+"//deeper", "dir /uncl"+fmt.Sprint(k)+"/a/../b", "file /home/user/unclean"+fmt.Sprint(k)+"/",
				"omit /etc//passwd", "omit /etc/./fstab", "dir /etc/", "omit /usr/../etc/group"))
		case 13:
			if flavour == 3 {
				lines = append(lines, g.Pick("omit /not/a/member", "file /does/not/exist", "file /etc", "symlink /no/target"))
			}
		}
	}
	d.Objs = b.objs
	d.Ext = ext.objs
	d.AddFiles = lines
	return d
}

func (g *Gen) Pick2(xs ...int) int { return xs[g.Intn(len(xs))] }

// ---------------------------------------------------------------- suites

func genStageCases(op string) func(g *Gen, tier string, emit func(Case)) {
	return func(g *Gen, tier string, emit func(Case)) {
		n := 60
		if tier == "thorough" {
			n = 1600
		}
		for _, dc := range directedRoots() {
			c := Case{"op": op, "desc": dc.d.toJSON(), "directed": dc.name}
			if tier == "thorough" || (dc.name == "dir-mtime-sibling" && op == "c07.tar") {
				c["deep"] = true
			}
			emit(c)
		}
		for i := 0; i < n; i++ {
			flavour := i % 4
			d := genRoot(g, flavour)
			c := Case{"op": op, "desc": d.toJSON(), "flavour": flavour}
			if tier == "thorough" && i%3 == 0 {
				c["deep"] = true
			}
			if i%7 == 3 && flavour != 3 {
				// src= names relative to the working directory of the run (not to the build root):
				// such a case has at least one src= line
				have := false
				for _, o := range d.Ext {
					have = have || o.P == "/"
				}
				if !have {
					d.Ext = append(d.Ext, fobj{P: "/", T: "d", Mode: 0755, Mtime: 1500000001})
				}
				d.Ext = append(d.Ext, fobj{P: "/rel-payload", T: "f", Mode: 0640, Uid: 5, Mtime: 1500000002, Size: 100, Seed: int64(i)})
				d.AddFiles = append(d.AddFiles, "file /opt/from-the-working-directory src=$EXT/rel-payload")
				c["desc"] = d.toJSON()
				c["relsrc"] = true
			}
			if i%4 == 1 {
				c["outinroot"] = true // -o inside the build root, where a wildcard line looks
			}
			if _, deep := c["deep"]; i%5 == 2 && !deep { // (no compressor inside the build root)
				// the stage of the running system: stagemaker runs chrooted into the build root
				// with -root /
				c["slashroot"] = true
				if flavour != 3 && i%2 == 0 {
					// … and a wildcard source whose directory is the root directory itself
					have := false
					for _, o := range d.Objs {
						have = have || o.P == "/srv"
					}
					if !have {
						d.Objs = append(d.Objs, fobj{P: "/srv", T: "d", Mode: 0755, Mtime: 1500000003},
							fobj{P: "/srv/top-file", T: "f", Mode: 0644, Mtime: 1500000004, Size: 17, Seed: int64(i)})
					}
					d.AddFiles = append(d.AddFiles, "dir /copies-of-top src=$$stageroot/sr*")
					c["desc"] = d.toJSON()
				}
			}
			emit(c)
		}
	}
}

func init() {
	register("c06", genStageCases("c06.tar"))
	register("c07", genStageCases("c07.tar"))
	ops["c06.tar"] = func(c Case) interface{} { return runStageCase(c, false) }
	ops["c07.tar"] = func(c Case) interface{} { return runStageCase(c, true) }
}

func sortedKeys(m map[string]bool) []string {
	out := make([]string, 0, len(m))
	for k := range m {
		out = append(out, k)
	}
	sort.Strings(out)
	return out
}
