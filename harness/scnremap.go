package main

// Other ways of configuring the installation.  The scenario generators lay trees, steps and
// host tables out for the default settings (layers in <base>/layers, build root "build",
// overlayfs/workdir, overlayfs/upperdir, packages, generated, exports in <base>/export); a share
// of the generated scenarios is re-laid for another configuration afterwards: every path of the
// tree, of the host mount table, of hand-made mounts and of process locations is mapped to
// where the other settings put it, and the case carries those settings.  Model, specification
// and oracles take the settings from the case.

import (
	"strings"
)

type cfgAlt struct {
	basepath string // where default_layerconfig.skel and what `init` writes live
	layerdirs, buildRoot, workdir, upperdir, binPkg, generated, exportdirs, exportBinPkg, exportGenerated string
}

var cfgAlts = []cfgAlt{
	// everything under other names, layers and exports some levels down
	{VB, VB + "/deep/er/layers", "broot", "ovl/w", "ovl/u", "pkgs", "gen", VB + "/out/export", "binpkgs", "gen-out"},
	// layers and exports outside the base path (everything stays below the scratch directory
	// that stands for /VB: nothing else is virtual)
	{VB + "/bp", VB + "/VL", "build", "overlayfs/workdir", "overlayfs/upperdir", "packages", "generated", VB + "/VE/x", "packages", "generated"},
	// names that extend one another: export directory "layers-export" beside "layers", upper
	// directory "build.upper" beside the build root "build"
	{VB, VB + "/layers", "build", "build.work", "build.upper", "packages", "packages.gen", VB + "/layers-export", "p", "pg"},
	// an equals sign and a comma's neighbour in the path of the layers directory (overlay
	// options are key=value lists)
	{VB, VB + "/cake=17.1/lay ers", "build", "overlayfs/workdir", "overlayfs/upperdir", "packages", "generated", VB + "/export", "pkgs=amd64", "generated"},
	// a build root two levels down
	{VB, VB + "/layers", "b/root", "overlayfs/workdir", "overlayfs/upperdir", "packages", "generated", VB + "/export", "packages", "generated"},
}

func (a cfgAlt) cfg() map[string]interface{} {
	return obj("basepath", hx(a.basepath), "layerdirs", hx(a.layerdirs), "buildRoot", hx(a.buildRoot), "binPkg", hx(a.binPkg),
		"generated", hx(a.generated), "workdir", hx(a.workdir), "upperdir", hx(a.upperdir),
		"exportdirs", hx(a.exportdirs), "exportBinPkg", hx(a.exportBinPkg), "exportGenerated", hx(a.exportGenerated))
}

func swapHead(tail string, pairs [][2]string) string {
	for _, m := range pairs {
		if tail == m[0] || strings.HasPrefix(tail, m[0]+"/") {
			return m[1] + tail[len(m[0]):]
		}
	}
	return tail
}

// inLayer maps a path relative to a layer's directory
func (a cfgAlt) inLayer(tail string) string {
	return swapHead(tail, [][2]string{{"build", a.buildRoot}, {"overlayfs/workdir", a.workdir}, {"overlayfs/upperdir", a.upperdir},
		{"packages", a.binPkg}, {"generated", a.generated}})
}

func (a cfgAlt) path(p string) string {
	L, E := VB+"/layers", VB+"/export"
	switch {
	case p == L:
		return a.layerdirs
	case strings.HasPrefix(p, L+"/"):
		parts := strings.SplitN(p[len(L)+1:], "/", 2)
		if len(parts) == 1 {
			return a.layerdirs + "/" + parts[0]
		}
		return a.layerdirs + "/" + parts[0] + "/" + a.inLayer(parts[1])
	case a.basepath != VB && (p == VB+"/default_layerconfig.skel" || p == VB+"/default_layerconfig" || p == VB+"/.bashrc" || p == VB+"/index.html"):
		return a.basepath + p[len(VB):]
	case p == E:
		return a.exportdirs
	case strings.HasPrefix(p, E+"/"):
		return a.exportdirs + "/" + swapHead(p[len(E)+1:], [][2]string{{"packages", a.exportBinPkg}, {"generated", a.exportGenerated}})
	}
	return p
}

func (a cfgAlt) hexPath(v interface{}) interface{} {
	s, ok := v.(string)
	if !ok {
		return v
	}
	return hx(a.path(unhx(s)))
}

func remapScenario(c Case, a cfgAlt) Case {
	c["cfg"] = a.cfg()
	// tree: paths and the targets of symbolic links; then the parents the new layout needs
	t := &treeB{ents: map[string][]interface{}{}}
	if tree, ok := c["tree"].([]interface{}); ok {
		for _, it := range tree {
			e, _ := it.([]interface{})
			if len(e) < 2 {
				continue
			}
			p := a.path(unhx(e[0].(string)))
			switch e[1] {
			case "d":
				t.dir(p)
			case "f":
				t.file(p, unhx(e[2].(string)))
			case "l":
				t.link(p, a.path(unhx(e[2].(string))))
			}
		}
		c["tree"] = t.list()
	}
	// host mount table: root, mountpoint, source, lower, upper, work
	if host, ok := c["host"].([]interface{}); ok {
		for _, h := range host {
			row, _ := h.([]interface{})
			for _, k := range []int{3, 4, 6, 7, 8, 9} {
				if k < len(row) {
					row[k] = a.hexPath(row[k])
				}
			}
		}
	}
	if steps, ok := c["steps"].([]interface{}); ok {
		for _, s := range steps {
			st, _ := s.(map[string]interface{})
			if st == nil {
				continue
			}
			if cmd, _ := st["cmd"].(string); cmd == "sysmount" || cmd == "sysumount" || cmd == "add" {
				args := unhxs(st["args"])
				for i := range args {
					args[i] = a.path(args[i])
				}
				st["args"] = hxs(args)
			}
			if us, ok := st["users"].([]interface{}); ok {
				for _, u := range us {
					ue, _ := u.([]interface{})
					if len(ue) == 3 {
						ue[2] = hx(a.inLayer(unhx(ue[2].(string))))
					}
				}
			}
		}
	}
	return c
}

// reconfigured wraps a scenario suite: every third scenario is re-laid for one of cfgAlts
func reconfigured(gen func(g *Gen, tier string, emit func(Case))) func(g *Gen, tier string, emit func(Case)) {
	return func(g *Gen, tier string, emit func(Case)) {
		n := 0
		gen(g, tier, func(c Case) {
			n++
			if c["op"] == "scenario" && n%3 == 0 {
				c = remapScenario(c, cfgAlts[(n/3)%len(cfgAlts)])
				c["reconfigured"] = true
			}
			emit(c)
		})
	}
}
