package main

import (
	"strings"
	"time"

	"potano.layercake/portage/atom"
	"potano.layercake/portage/depend"
)

// C13: atom matching vs PMS.  Structured stream: (atom, installed package) pairs built
// from the PMS grammar, the ground-truth structure travels with the text so that the Lean
// specification never has to parse; malformed stream: byte mutations of the texts.

type pmsSuffix struct {
	Kind   string // alpha beta pre rc p
	Num    string
	HasNum bool
}

type pmsVersion struct {
	Nums   []string
	Letter string
	Sufs   []pmsSuffix
	Rev    string
	HasRev bool
}

func (v *pmsVersion) clone() *pmsVersion {
	w := *v
	w.Nums = append([]string{}, v.Nums...)
	w.Sufs = append([]pmsSuffix{}, v.Sufs...)
	return &w
}

func (v *pmsVersion) render() string {
	s := strings.Join(v.Nums, ".") + v.Letter
	for _, x := range v.Sufs {
		s += "_" + x.Kind + x.Num
	}
	if v.HasRev {
		s += "-r" + v.Rev
	}
	return s
}

func (v *pmsVersion) json() interface{} {
	if v == nil {
		return nil
	}
	sufs := []interface{}{}
	for _, x := range v.Sufs {
		if x.HasNum {
			sufs = append(sufs, []interface{}{x.Kind, hx(x.Num)})
		} else {
			sufs = append(sufs, []interface{}{x.Kind, nil})
		}
	}
	var rev interface{}
	if v.HasRev {
		rev = hx(v.Rev)
	}
	return obj("nums", hxs(v.Nums), "letter", hx(v.Letter), "sufs", sufs, "rev", rev)
}

type pmsUseDep struct {
	Form, Dflt, Flag string // Form: en dis same opp if ifnot; Dflt: "" + -
}

func (u pmsUseDep) render() string {
	d := ""
	if u.Dflt != "" {
		d = "(" + u.Dflt + ")"
	}
	switch u.Form {
	case "en":
		return u.Flag + d
	case "dis":
		return "-" + u.Flag + d
	case "same":
		return u.Flag + d + "="
	case "opp":
		return "!" + u.Flag + d + "="
	case "if":
		return u.Flag + d + "?"
	}
	return "!" + u.Flag + d + "?"
}

// the code accepts the default marker only after the =/? suffix; PMS writes it before:
// [flag(+)=].  Both orders are produced, see renderAtom.
func (u pmsUseDep) renderGoOrder() string {
	d := ""
	if u.Dflt != "" {
		d = "(" + u.Dflt + ")"
	}
	switch u.Form {
	case "en":
		return u.Flag + d
	case "dis":
		return "-" + u.Flag + d
	case "same":
		return u.Flag + "=" + d
	case "opp":
		return "!" + u.Flag + "=" + d
	case "if":
		return u.Flag + "?" + d
	}
	return "!" + u.Flag + "?" + d
}

type pmsAtom struct {
	Bang     int
	Op       string // "" < <= = >= > ~ =*
	Name     string
	Ver      *pmsVersion
	SlotKind string // none star eq slot
	Slot     string
	Sub      string
	HasSub   bool
	SlotEq   bool
	Use      []pmsUseDep
	PmsOrder bool // default marker before the =/? suffix (PMS order)
}

func (a *pmsAtom) render() string {
	s := strings.Repeat("!", a.Bang)
	if a.Op == "=*" {
		s += "="
	} else {
		s += a.Op
	}
	s += a.Name
	if a.Ver != nil {
		s += "-" + a.Ver.render()
		if a.Op == "=*" {
			s += "*"
		}
	}
	switch a.SlotKind {
	case "star":
		s += ":*"
	case "eq":
		s += ":="
	case "slot":
		s += ":" + a.Slot
		if a.HasSub {
			s += "/" + a.Sub
		}
		if a.SlotEq {
			s += "="
		}
	}
	if len(a.Use) > 0 {
		parts := make([]string, len(a.Use))
		for i, u := range a.Use {
			if a.PmsOrder {
				parts[i] = u.render()
			} else {
				parts[i] = u.renderGoOrder()
			}
		}
		s += "[" + strings.Join(parts, ",") + "]"
	}
	return s
}

func (a *pmsAtom) json() interface{} {
	use := []interface{}{}
	for _, u := range a.Use {
		use = append(use, obj("form", u.Form, "dflt", u.Dflt, "flag", hx(u.Flag)))
	}
	var sub interface{}
	if a.HasSub {
		sub = hx(a.Sub)
	}
	return obj("bang", a.Bang, "op", a.Op, "name", hx(a.Name), "ver", a.Ver.json(),
		"slot", obj("kind", a.SlotKind, "slot", hx(a.Slot), "sub", sub, "eq", a.SlotEq),
		"use", use, "pmsorder", a.PmsOrder)
}

type pmsCand struct {
	Name   string
	Ver    *pmsVersion
	Slot   string
	Sub    string
	IusePr []string // prefix of each IUSE entry
	Iuse   []string
	Use    []string
}

func (c *pmsCand) text() string { return c.Name + "-" + c.Ver.render() }
func (c *pmsCand) iuseString() string {
	p := make([]string, len(c.Iuse))
	for i := range c.Iuse {
		p[i] = c.IusePr[i] + c.Iuse[i]
	}
	return strings.Join(p, " ")
}
func (c *pmsCand) json() interface{} {
	iu := []interface{}{}
	for i := range c.Iuse {
		iu = append(iu, []interface{}{hx(c.IusePr[i]), hx(c.Iuse[i])})
	}
	return obj("name", hx(c.Name), "ver", c.Ver.json(), "slot", hx(c.Slot), "sub", hx(c.Sub),
		"iuse", iu, "use", hxs(c.Use))
}

// ---------------------------------------------------------------- generators

var c13Names = []string{"dev-lang/php", "x11-libs/gtk+", "sys-apps/util-linux", "app-text/a2ps",
	"media-fonts/font-adobe-100dpi", "dev-libs/libxml2", "virtual/w3m", "dev-python/click"}
var c13Flags = []string{"a", "b", "nls", "ssl", "threads", "foo-bar", "x_y", "c++", "a@b", "X"}
var c13Slots = []string{"0", "1", "2", "3.7", "7.4", "stable", "1.2", "10", "a1", "2.0-r1", "5_p"}
var c13NastySlots = []string{"01", "1.02", "a01", "007", "000001", "100000"}
var sufKinds = []string{"alpha", "beta", "pre", "rc", "p"}

// nasty: 0 = stay inside Dom5; >0 = may leave it
func genNum(g *Gen, nasty int, first bool) string {
	if nasty > 0 && g.Chance(1, 3) {
		switch g.Intn(6) {
		case 0:
			return g.Pick("100000", "123456", "999999", "1000000", "200000")
		case 1:
			return g.Pick("20230131", "19991231", "20001301", "20991231", "00010101", "20240229")
		case 2:
			return "0" + g.From("0123456789", 1+g.Intn(3))
		case 3:
			return g.From("0123456789", 6+g.Intn(4))
		case 4:
			return g.Pick("00", "000", "010", "0100", "00001")
		case 5:
			return g.From("123456789", 1) + g.From("0", 5+g.Intn(2))
		}
	}
	switch g.Intn(10) {
	case 0:
		return "0"
	case 1:
		return g.Pick("99999", "9999", "999", "99", "9", "10000", "10", "100", "1000")
	case 2:
		return g.From("123456789", 1) + g.From("0123456789", g.Intn(5))
	default:
		return g.Pick("1", "2", "3", "4", "5", "7", "10", "11", "12", "20", "30")
	}
}

func genSuffix(g *Gen, nasty int) pmsSuffix {
	s := pmsSuffix{Kind: sufKinds[g.Intn(len(sufKinds))]}
	if g.Chance(2, 3) {
		s.HasNum = true
		if nasty > 0 && g.Chance(1, 3) {
			s.Num = g.Pick("0", "00", "01", "100000", "20230131", "000000", "010")
		} else {
			s.Num = g.Pick("1", "2", "3", "9", "10", "20", "99999", "12345", "4")
		}
	}
	return s
}

func genVersion(g *Gen, nasty int) *pmsVersion {
	v := &pmsVersion{}
	n := 1 + g.Intn(3)
	if g.Chance(1, 10) {
		n = 4 + g.Intn(4)
	}
	for i := 0; i < n; i++ {
		v.Nums = append(v.Nums, genNum(g, nasty, i == 0))
	}
	if g.Chance(1, 5) {
		v.Letter = g.From("abcdexyz", 1)
	}
	if g.Chance(1, 3) {
		v.Sufs = append(v.Sufs, genSuffix(g, nasty))
		if nasty > 0 && g.Chance(1, 3) {
			for k := 1 + g.Intn(2); k > 0; k-- {
				v.Sufs = append(v.Sufs, genSuffix(g, nasty))
			}
		}
	}
	if g.Chance(1, 3) {
		v.HasRev = true
		if nasty > 0 && g.Chance(1, 4) {
			v.Rev = g.Pick("100000", "01", "00", "999999", "20230131")
		} else {
			v.Rev = g.Pick("0", "1", "2", "3", "10", "99999", "9")
		}
	}
	return v
}

func bump(g *Gen, s string) string {
	// numeric neighbour of a digit string (keeps it a digit string)
	if len(s) > 9 {
		return s[:len(s)-1]
	}
	n := 0
	for _, c := range s {
		n = n*10 + int(c-'0')
	}
	switch g.Intn(4) {
	case 0:
		n++
	case 1:
		if n > 0 {
			n--
		}
	case 2:
		n *= 10
	case 3:
		n /= 10
	}
	out := ""
	if n == 0 {
		return "0"
	}
	for n > 0 {
		out = string(rune('0'+n%10)) + out
		n /= 10
	}
	return out
}

// perturb returns a neighbour of v in the version order
func perturb(g *Gen, v *pmsVersion, nasty int) *pmsVersion {
	w := v.clone()
	for k := g.Intn(3); k >= 0; k-- {
		switch g.Intn(12) {
		case 0:
			// identical
		case 1:
			i := g.Intn(len(w.Nums))
			w.Nums[i] = bump(g, w.Nums[i])
		case 2:
			w.Nums = append(w.Nums, genNum(g, nasty, false))
		case 3:
			if len(w.Nums) > 1 {
				w.Nums = w.Nums[:len(w.Nums)-1]
			}
		case 4:
			if w.Letter == "" {
				w.Letter = g.From("abz", 1)
			} else {
				w.Letter = g.Pick("", "a", "b", "z", string(rune(w.Letter[0]+1)))
				if w.Letter > "z" {
					w.Letter = "z"
				}
			}
		case 5:
			if len(w.Sufs) == 0 {
				w.Sufs = []pmsSuffix{genSuffix(g, nasty)}
			} else {
				w.Sufs = w.Sufs[:len(w.Sufs)-1]
			}
		case 6:
			if len(w.Sufs) > 0 {
				i := g.Intn(len(w.Sufs))
				if w.Sufs[i].HasNum {
					if g.Chance(1, 3) {
						w.Sufs[i].HasNum, w.Sufs[i].Num = false, ""
					} else {
						w.Sufs[i].Num = bump(g, w.Sufs[i].Num)
						if nasty == 0 && w.Sufs[i].Num == "0" {
							w.Sufs[i].Num = "1"
						}
					}
				} else {
					w.Sufs[i].HasNum, w.Sufs[i].Num = true, g.Pick("1", "2", "10")
					if nasty > 0 && g.Chance(1, 2) {
						w.Sufs[i].Num = "0"
					}
				}
			}
		case 7:
			if len(w.Sufs) > 0 {
				w.Sufs[g.Intn(len(w.Sufs))].Kind = sufKinds[g.Intn(len(sufKinds))]
			}
		case 8:
			if w.HasRev {
				if g.Chance(1, 2) {
					w.HasRev, w.Rev = false, ""
				} else {
					w.Rev = bump(g, w.Rev)
				}
			} else {
				w.HasRev, w.Rev = true, g.Pick("0", "1", "2", "7")
			}
		case 9:
			if nasty > 0 {
				i := g.Intn(len(w.Nums))
				w.Nums[i] = g.Pick("0", "00") + w.Nums[i]
			}
		case 10:
			if nasty > 0 && len(w.Sufs) > 0 {
				w.Sufs = append(w.Sufs, genSuffix(g, nasty))
			}
		case 11:
			if nasty > 0 {
				i := g.Intn(len(w.Nums))
				w.Nums[i] = w.Nums[i] + "0"
			}
		}
	}
	return w
}

func genUseDeps(g *Gen) []pmsUseDep {
	n := 0
	switch g.Intn(10) {
	case 0, 1, 2, 3:
		n = 1
	case 4:
		n = 2 + g.Intn(2)
	}
	out := []pmsUseDep{}
	for i := 0; i < n; i++ {
		out = append(out, pmsUseDep{Form: g.Pick("en", "dis", "same", "opp", "if", "ifnot"),
			Dflt: g.Pick("", "", "+", "-"), Flag: c13Flags[g.Intn(len(c13Flags))]})
	}
	return out
}

func genPair(g *Gen, nasty int) (*pmsAtom, *pmsCand, [][2]interface{}) {
	a := &pmsAtom{Name: c13Names[g.Intn(len(c13Names))], SlotKind: "none", PmsOrder: g.Chance(1, 4)}
	if g.Chance(1, 10) {
		a.Bang = 1 + g.Intn(2)
	}
	a.Op = g.Pick("", "<", "<=", "=", ">=", ">", "~", "=*", "<", "<=", "=", ">=", ">", "~", "=*")
	if a.Op != "" {
		a.Ver = genVersion(g, nasty)
		if (a.Op == "~" || a.Op == "=*") && nasty == 0 && g.Chance(3, 4) {
			a.Ver.HasRev, a.Ver.Rev = false, ""
		}
	}
	switch g.Intn(12) {
	case 0, 1, 2:
		a.SlotKind, a.Slot = "slot", c13Slots[g.Intn(len(c13Slots))]
	case 3:
		a.SlotKind, a.Slot, a.HasSub, a.Sub = "slot", c13Slots[g.Intn(len(c13Slots))], true, c13Slots[g.Intn(len(c13Slots))]
	case 4:
		a.SlotKind, a.Slot, a.SlotEq = "slot", c13Slots[g.Intn(len(c13Slots))], true
		if g.Chance(1, 2) {
			a.HasSub, a.Sub = true, c13Slots[g.Intn(len(c13Slots))]
		}
	case 5:
		a.SlotKind = g.Pick("star", "eq")
	}
	if nasty > 0 && a.SlotKind == "slot" && g.Chance(1, 3) {
		a.Slot = c13NastySlots[g.Intn(len(c13NastySlots))]
	}
	a.Use = genUseDeps(g)

	c := &pmsCand{Name: a.Name}
	if g.Chance(1, 40) {
		c.Name = c13Names[g.Intn(len(c13Names))]
	}
	if a.Ver != nil && g.Chance(3, 4) {
		c.Ver = perturb(g, a.Ver, nasty)
	} else {
		c.Ver = genVersion(g, nasty)
	}
	if nasty > 0 && a.Ver != nil && g.Chance(1, 12) {
		// same version, differing only in how a suffix number / the revision is written
		c.Ver = a.Ver.clone()
		if len(c.Ver.Sufs) == 0 {
			c.Ver.Sufs = []pmsSuffix{genSuffix(g, 0)}
			a.Ver.Sufs = []pmsSuffix{c.Ver.Sufs[0]}
		}
		i := g.Intn(len(c.Ver.Sufs))
		switch g.Intn(3) {
		case 0:
			c.Ver.Sufs[i].HasNum, c.Ver.Sufs[i].Num = true, g.Pick("0", "00")
			a.Ver.Sufs[i].HasNum, a.Ver.Sufs[i].Num = false, ""
		case 1:
			a.Ver.Sufs[i].HasNum, a.Ver.Sufs[i].Num = true, "0"
			c.Ver.Sufs[i].HasNum, c.Ver.Sufs[i].Num = false, ""
		case 2:
			a.Ver.HasRev, a.Ver.Rev = true, g.Pick("1", "2")
			c.Ver.HasRev, c.Ver.Rev = g.Chance(1, 2), g.Pick("0", "1", "3")
			if !c.Ver.HasRev {
				c.Ver.Rev = ""
			}
		}
	}
	c.Slot = c13Slots[g.Intn(len(c13Slots))]
	if a.SlotKind == "slot" && g.Chance(3, 4) {
		c.Slot = a.Slot
		if nasty > 0 && g.Chance(1, 4) {
			c.Slot = g.Pick("0"+a.Slot, strings.TrimLeft(a.Slot, "0")+"", a.Slot+"0", a.Slot)
			if c.Slot == "" {
				c.Slot = "0"
			}
		}
	}
	if g.Chance(1, 3) {
		c.Sub = c13Slots[g.Intn(len(c13Slots))]
		if a.HasSub && g.Chance(1, 2) {
			c.Sub = a.Sub
		}
	}
	ctx := [][2]interface{}{}
	for _, f := range c13Flags {
		mentioned := false
		for _, u := range a.Use {
			if u.Flag == f {
				mentioned = true
			}
		}
		if !mentioned && !g.Chance(1, 5) {
			continue
		}
		switch g.Intn(4) {
		case 0: // not in IUSE
		case 1:
			c.IusePr, c.Iuse = append(c.IusePr, g.Pick("", "+", "-")), append(c.Iuse, f)
		default:
			c.IusePr, c.Iuse = append(c.IusePr, g.Pick("", "", "+", "-")), append(c.Iuse, f)
			c.Use = append(c.Use, f)
		}
		if g.Chance(1, 8) {
			c.Use = append(c.Use, f) // USE may name flags outside IUSE / twice
		}
		switch g.Intn(3) {
		case 0:
			ctx = append(ctx, [2]interface{}{hx(f), true})
		case 1:
			ctx = append(ctx, [2]interface{}{hx(f), false})
		}
	}
	return a, c, ctx
}

func ctxJSON(ctx [][2]interface{}) []interface{} {
	out := []interface{}{}
	for _, kv := range ctx {
		out = append(out, []interface{}{kv[0], kv[1]})
	}
	return out
}

func pairCase(a *pmsAtom, c *pmsCand, ctx [][2]interface{}) Case {
	return Case{"op": "c13.match", "atom": hx(a.render()), "cand": hx(c.text()), "cslot": hx(c.Slot),
		"csub": hx(c.Sub), "iuse": hx(c.iuseString()), "use": hx(strings.Join(c.Use, " ")),
		"ctx": ctxJSON(ctx), "a": a.json(), "c": c.json()}
}

func mutateAtomText(g *Gen, s string) string {
	b := []byte(s)
	alphabet := "0123456789.-_*:/=<>~![](),+?abprz9 "
	for k := 1 + g.Intn(2); k > 0 && len(b) > 0; k-- {
		p := g.Intn(len(b))
		switch g.Intn(4) {
		case 0:
			b = append(b[:p], b[p+1:]...)
		case 1:
			b[p] = alphabet[g.Intn(len(alphabet))]
		case 2:
			b = b[:p]
		case 3:
			ins := g.Pick("_p", "_alpha", "-r1", "*", ":", "/", "[", "]", "(+)", "(-)", ".", "-", "99999", "0", "_rc_", "::", "=", "?", "!", "Z", "zz")
			b = append(b[:p], append([]byte(ins), b[p:]...)...)
		}
	}
	return string(b)
}

// ---------------------------------------------------------------- running the real code

func withTimeout(f func() interface{}) interface{} {
	done := make(chan interface{}, 1)
	go func() { done <- guarded(f) }()
	select {
	case r := <-done:
		return r
	case <-time.After(3 * time.Second):
		return obj("cls", "hang")
	}
}

func observeMatch(c Case) interface{} {
	atomText, candText := unhx(c["atom"]), unhx(c["cand"])
	da, pos, err := depend.VerifNewDependencyAtomAtCursor(atomText, true)
	if err != nil {
		return obj("cls", "err:atom")
	}
	ca, err := atom.NewUnprefixedConcreteAtom(candText)
	if err != nil {
		return obj("cls", "err:cand")
	}
	// the way portage/vdb/get_list.go builds an installed package
	ca.UseFlags = atom.NewUseFlagSetFromIUSE(unhx(c["iuse"]))
	ca.UseFlags.SetFlagsFromUSE(unhx(c["use"]))
	ca.SetSlotAndSubslot(unhx(c["cslot"]), unhx(c["csub"]))
	ctx := atom.UseFlagMap{}
	if l, ok := c["ctx"].([]interface{}); ok {
		for _, e := range l {
			kv, _ := e.([]interface{})
			if len(kv) == 2 {
				b, _ := kv[1].(bool)
				ctx[unhx(kv[0])] = b
			}
		}
	}
	vs := da.VersionAndSlotMatch(ca)
	fmOk, fmErr := da.VerifFlagsMatch(ca, ctx)
	fm := "f"
	if fmErr {
		fm = "e"
	} else if fmOk {
		fm = "t"
	}
	kept := len(da.FilterAtoms([]atom.Atom{ca}, ctx)) > 0
	return obj("cls", "ok", "acv", hx(da.ComparisonString()), "aslot", hx(da.GetSlot()),
		"aname", hx(da.PackageName()), "arest", len(atomText)-pos,
		"ccv", hx(ca.ComparisonString()), "cslot", hx(ca.GetSlot()), "cname", hx(ca.PackageName()),
		"vs", vs, "fm", fm, "match", kept && da.PackageName() == ca.PackageName())
}

func init() {
	ops["c13.match"] = func(c Case) interface{} { return withTimeout(func() interface{} { return observeMatch(c) }) }
	ops["c13.nextver"] = func(c Case) interface{} {
		return withTimeout(func() interface{} { return obj("out", hx(atom.MakeNextVer(unhx(c["s"])))) })
	}

	register("c13", func(g *Gen, tier string, emit func(Case)) {
		// the whole USE-dependency table: forms x defaults x candidate state x parent state
		for _, form := range []string{"en", "dis", "same", "opp", "if", "ifnot"} {
			for _, dflt := range []string{"", "+", "-"} {
				for cs := 0; cs < 3; cs++ { // 0 not in IUSE, 1 off, 2 on
					for ps := 0; ps < 3; ps++ { // 0 absent from the map, 1 false, 2 true
						for _, pmsOrder := range []bool{false, true} {
							a := &pmsAtom{Name: "dev-lang/php", SlotKind: "none", PmsOrder: pmsOrder,
								Use: []pmsUseDep{{Form: form, Dflt: dflt, Flag: "nls"}}}
							c := &pmsCand{Name: "dev-lang/php", Ver: &pmsVersion{Nums: []string{"7", "4"}}, Slot: "7.4"}
							if cs > 0 {
								c.IusePr, c.Iuse = []string{""}, []string{"nls"}
							}
							if cs == 2 {
								c.Use = []string{"nls"}
							}
							ctx := [][2]interface{}{}
							if ps > 0 {
								ctx = append(ctx, [2]interface{}{hx("nls"), ps == 2})
							}
							emit(pairCase(a, c, ctx))
						}
					}
				}
			}
		}
		n := 2500
		if tier == "thorough" {
			n = 150000
		}
		for i := 0; i < n; i++ {
			nasty := 0
			if i%3 == 2 {
				nasty = 1
			}
			a, c, ctx := genPair(g, nasty)
			cs := pairCase(a, c, ctx)
			emit(cs)
			if i%5 == 0 {
				m := Case{"op": "c13.match", "cslot": cs["cslot"], "csub": cs["csub"], "iuse": cs["iuse"],
					"use": cs["use"], "ctx": cs["ctx"]}
				if g.Chance(2, 3) {
					m["atom"], m["cand"] = hx(mutateAtomText(g, a.render())), cs["cand"]
				} else {
					m["atom"], m["cand"] = cs["atom"], hx(mutateAtomText(g, c.text()))
				}
				emit(m)
			}
			if i%4 == 0 {
				// MakeNextVer on comparison strings and adversarial bytes
				var s string
				switch g.Intn(3) {
				case 0:
					s = g.From("09.- _zZapr", g.Intn(12))
				case 1:
					s = "0000" + g.From("0129", 1) + g.Pick("", ".99999", ".00009", " z", " zz", " _p", " _p99999", ".", "-", " a", "Z", "zZ", ".20231231", ".19990131", ".20991231", ".00001231")
				case 2:
					s = g.From("0123456789", 8)
				}
				emit(Case{"op": "c13.nextver", "s": hx(s)})
			}
		}
	})
}
