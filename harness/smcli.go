package main

import (
	"bytes"
	"io/ioutil"
	"os"
	"os/exec"
	"path"
	"sort"
	"strings"
)

// smcli: switches of the stagemaker binary whose handling lives in package main:
//   sm.compress  -compress <spelling> (and selection by the extension of -o): which compressor
//                the archive really went through, told by its magic bytes
//   sm.addfiles  add-files scripts named in a recipe AND with -addfiles: every script counts

var smRootDir string

// smRoot builds (once per process) a complete build root from the description in the case
func smRoot(c Case) (string, error) {
	if smRootDir != "" {
		return smRootDir, nil
	}
	dir, err := ioutil.TempDir(c17scratch(), "smroot-")
	if err != nil {
		return "", err
	}
	root := dir + "/root"
	if _, err := buildTree(root, descOf(c["desc"]).Objs); err != nil {
		return "", err
	}
	smRootDir = root
	return root, nil
}

func smRun(root string, args ...string) (int, string, string) {
	bin := os.Getenv("VERIF_STAGEMAKER")
	cmd := exec.Command(bin, args...)
	cmd.Dir = root
	var so, se bytes.Buffer
	cmd.Stdout, cmd.Stderr = &so, &se
	err := cmd.Run()
	code := 0
	if err != nil {
		code = 1
		if ee, ok := err.(*exec.ExitError); ok {
			code = ee.ExitCode()
		}
	}
	return code, so.String(), se.String()
}

func magicOf(b []byte) string {
	switch {
	case len(b) >= 2 && b[0] == 0x1f && b[1] == 0x8b:
		return "gzip"
	case len(b) >= 3 && string(b[:3]) == "BZh":
		return "bzip2"
	case len(b) >= 6 && string(b[:6]) == "\xfd7zXZ\x00":
		return "xz"
	case len(b) >= 262 && string(b[257:262]) == "ustar":
		return "none"
	}
	return "unknown"
}

func runSmCompress(c Case) interface{} {
	if os.Getenv("VERIF_STAGEMAKER") == "" {
		return obj("harness-error", "VERIF_STAGEMAKER not set")
	}
	root, err := smRoot(c)
	if err != nil {
		return obj("harness-error", err.Error())
	}
	out, err := ioutil.TempFile(c17scratch(), "smc-*"+str(c["ext"]))
	if err != nil {
		return obj("harness-error", err.Error())
	}
	name := out.Name()
	// the output file exists already and is much longer than any archive of these roots: what
	// is written must replace it, not be laid over its beginning
	const stale = 6 << 20
	out.Write(bytes.Repeat([]byte{0xAA}, stale))
	out.Close()
	defer os.Remove(name)
	args := []string{"-root", root, "-generate", "-o", name}
	if p := str(c["param"]); p != "" {
		args = append(args, "-compress", p)
	}
	code, _, _ := smRun(root, args...)
	if code != 0 {
		return obj("cls", "err")
	}
	b, _ := ioutil.ReadFile(name)
	if len(b) >= stale {
		return obj("cls", "ok", "method", "stale-bytes-after-"+magicOf(b))
	}
	return obj("cls", "ok", "method", magicOf(b))
}

func runSmAddfiles(c Case) interface{} {
	if os.Getenv("VERIF_STAGEMAKER") == "" {
		return obj("harness-error", "VERIF_STAGEMAKER not set")
	}
	root, err := smRoot(c)
	if err != nil {
		return obj("harness-error", err.Error())
	}
	dir, err := ioutil.TempDir(c17scratch(), "smaf")
	if err != nil {
		return obj("harness-error", err.Error())
	}
	defer os.RemoveAll(dir)
	write := func(name string, lines []string) string {
		p := dir + "/" + name
		ioutil.WriteFile(p, []byte(strings.Join(lines, "\n")+"\n"), 0644)
		return p
	}
	recipe := []string{}
	for i, s := range unhxs(c["recipe_scripts"]) {
		recipe = append(recipe, "addfiles "+write("r"+string(rune('0'+i)), strings.Split(s, "\n")))
	}
	spelt := root
	switch int(num(c["rootspell"])) {
	case 1:
		spelt = root + "/"
	case 2:
		spelt = "." // the command runs in the build root
	case 3:
		spelt = "../" + path.Base(root) + "/."
	case 4:
		spelt = root + "//etc/.."
	case 5:
		spelt = path.Dir(root) + "/./" + path.Base(root)
	}
	args := []string{"-root", spelt, "-list", "stage", "-files"}
	if len(recipe) > 0 {
		args = append(args, "-recipe", write("recipe", recipe))
	}
	for i, s := range unhxs(c["switch_scripts"]) {
		args = append(args, "-addfiles", write("s"+string(rune('0'+i)), strings.Split(s, "\n")))
	}
	if b, _ := c["dir_script"].(bool); b {
		// a directory where an add-files file is expected: opens, cannot be read — an error
		os.Mkdir(dir+"/a-directory", 0755)
		args = append(args, "-addfiles", dir+"/a-directory")
	}
	code, so, _ := smRun(root, args...)
	if code != 0 {
		return obj("cls", "err")
	}
	marks := []string{}
	for _, l := range strings.Split(so, "\n") {
		l = strings.TrimSpace(l)
		if strings.Contains(l, "/mark-") {
			marks = append(marks, l[strings.Index(l, "/mark-"):])
		}
	}
	sort.Strings(marks)
	return obj("cls", "ok", "marks", hxs(marks))
}

func init() {
	ops["sm.compress"] = runSmCompress
	ops["sm.addfiles"] = runSmAddfiles
	register("smcli", func(g *Gen, tier string, emit0 func(Case)) {
		d := genRoot(g, 0)
		d.AddFiles = nil
		desc := d.toJSON()
		emit := func(c Case) {
			c["desc"] = desc
			emit0(c)
		}
		// every documented spelling, in both cases where that matters, plus a few undocumented ones
		for _, p := range []string{"gzip", "gz", "z", "GZIP", "Gz", "bzip2", "bzip", "bz2", "bz", "j", "BZ2", "xz", "J", "XZ",
			"none", "no", "0", "NONE", "Z", "lzma", "zip", "x", ""} {
			ext := ".tar"
			if p == "" {
				ext = g.Pick(".tar", ".tar.gz", ".tgz", ".tar.bz2", ".tar.xz", ".txz", ".tar.zst")
			}
			emit(Case{"op": "sm.compress", "param": p, "ext": ext})
		}
		// the extension of -o when no parameter is given
		for _, ext := range []string{".tar", ".tar.gz", ".tgz", ".tar.bz2", ".tbz2", ".tar.xz", ".txz", ".stage"} {
			emit(Case{"op": "sm.compress", "param": "", "ext": ext})
		}
		// add-files scripts from the recipe, from the switch, from both
		script := func(k int) string { return "dir /mark-" + string(rune('a'+k)) }
		for nr := 0; nr <= 2; nr++ {
			for ns := 0; ns <= 1; ns++ {
				rs, ss := []string{}, []string{}
				for i := 0; i < nr; i++ {
					rs = append(rs, script(i))
				}
				for i := 0; i < ns; i++ {
					ss = append(ss, script(5+i))
				}
				// the build root spelt in different ways: all mean the same directory
				emit(Case{"op": "sm.addfiles", "recipe_scripts": hxs(rs), "switch_scripts": hxs(ss), "rootspell": g.Intn(6)})
				if g.Chance(1, 4) {
					emit(Case{"op": "sm.addfiles", "recipe_scripts": hxs(rs), "switch_scripts": hxs(ss), "rootspell": 0, "dir_script": true})
				}
			}
		}
	})
}
