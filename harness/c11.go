package main

import (
	"fmt"
	"io/ioutil"
	"os"
	"strings"

	"potano.layercake/fs"
	"potano.layercake/manage"
)

// C11 (read_write_read): layerconfig texts through the real
// ReadLayerFile -> WriteLayerfile -> ReadLayerFile.  Structured stream: grammar-built
// texts (base/import/export lines in any number and order, odd spacing, tabs, Unicode
// blanks, comments, blank lines, extra fields, unusual types and paths); malformed
// stream: byte mutations and truncations of such texts.

var c11Seps = []string{" ", " ", "  ", "\t", " \t ", " ", " ", "\t\t", "　 "}
var c11Types = []string{"rbind", "bind", "proc", "tmpfs", "x-weird", "é", "a=b", "#t", "//t", "ext4,ro", "b\xffd", "t%s", "100%"}
var c11Paths = []string{"/dev", "/proc", "/sys", "/var/db/repos", "/a/../b", "//c/", "/x//y/./z/", "/..", "..", "../up",
	".", "./", "a/b", "$$self/x", "$$base/packages", "$$package_export", "$$file_export/sub/", "/é/ü", "/tr/ailing/",
	"/a/b/../../..", "/sp ace", "~user/x", "/\xc3", "/\xe1\x9a", "/#x", "/a#b", "//", "/", "/srv/dist%20files", "/p%d/%s", "/100%", "%v", "/very/long/" + strings.Repeat("p/", 20)}
var c11Names = []string{"base1", "Gentoo-2024", "x", "é1", "_u", "a-b", "bäse", "1", "b%d", "%s"}

func c11Sep(g *Gen) string { return c11Seps[g.Intn(len(c11Seps))] }

func c11Line(g *Gen) string {
	lead := ""
	if g.Chance(1, 3) {
		lead = c11Sep(g)
	}
	trail := ""
	if g.Chance(1, 3) {
		trail = c11Sep(g)
	}
	extra := func() string {
		if g.Chance(1, 6) {
			return c11Sep(g) + g.Pick("extra", "# not a comment", "x y z", "0")
		}
		return ""
	}
	switch g.Intn(12) {
	case 0, 1:
		return lead + "base" + c11Sep(g) + c11Names[g.Intn(len(c11Names))] + extra() + trail
	case 2, 3, 4, 5:
		return lead + "import" + c11Sep(g) + c11Types[g.Intn(len(c11Types))] + c11Sep(g) +
			c11Paths[g.Intn(len(c11Paths))] + c11Sep(g) + c11Paths[g.Intn(len(c11Paths))] + extra() + trail
	case 6, 7:
		return lead + "export" + c11Sep(g) + c11Types[g.Intn(len(c11Types))] + c11Sep(g) +
			c11Paths[g.Intn(len(c11Paths))] + c11Sep(g) + c11Paths[g.Intn(len(c11Paths))] + extra() + trail
	case 8:
		return lead + g.Pick("#", "# comment", "//", "// import rbind /a /b", "#base x", "  # x") + trail
	case 9:
		return g.Pick("", "", " ", "\t", " ", "   \t")
	case 10:
		// lines that must produce a message
		return lead + g.Pick("base", "import", "import rbind", "import rbind /a", "export x", "bogus a b c",
			"Base x", "imports rbind /a /b", "/ /", "/x") + trail
	default:
		// a second base line: same name (fine) or another (message)
		return "base " + g.Pick("base1", "x", "other")
	}
}

func c11Text(g *Gen) string {
	n := g.Intn(9)
	var b strings.Builder
	for i := 0; i < n; i++ {
		b.WriteString(c11Line(g))
		if i == n-1 && g.Chance(1, 4) {
			break // no final newline
		}
		if g.Chance(1, 8) {
			b.WriteString("\r\n")
		} else {
			b.WriteString("\n")
		}
	}
	return b.String()
}

var c11Counter int

func c11Read(p string) interface{} {
	li, err := manage.ReadLayerFile(p, false)
	if err != nil || li == nil {
		return obj("cls", "err:read")
	}
	conv := func(l []manage.NeededMountType) []interface{} {
		out := make([]interface{}, len(l))
		for i, m := range l {
			out[i] = []interface{}{hx(m.Fstype), hx(m.Source), hx(m.Mount)}
		}
		return out
	}
	return obj("cls", "ok", "base", hx(li.Base), "imports", conv(li.ConfigMounts),
		"exports", conv(li.ConfigExports), "nmsgs", len(li.Messages))
}

func runLayerfileRWR(c Case) interface{} {
	base := os.Getenv("VERIF_SCRATCH")
	if base == "" {
		base = os.TempDir()
	}
	c11Counter++
	root, err := ioutil.TempDir(base, fmt.Sprintf("c11-%d-", c11Counter))
	if err != nil {
		return obj("harness-error", "mkdir scratch: "+err.Error())
	}
	defer os.RemoveAll(root)
	oldW, oldH := fs.WriteOK, fs.VerifHook
	fs.WriteOK = fs.MakePretender(false, false, nil)
	fs.VerifHook = nil
	defer func() { fs.WriteOK, fs.VerifHook = oldW, oldH }()
	p1 := root + "/layerconfig"
	p2 := root + "/rewritten"
	if err := ioutil.WriteFile(p1, []byte(unhx(c["text"])), 0644); err != nil {
		return obj("harness-error", "write: "+err.Error())
	}
	li, err := manage.ReadLayerFile(p1, false)
	if err != nil || li == nil {
		return obj("r1", obj("cls", "err:read"))
	}
	r1 := c11Read(p1)
	if err := manage.WriteLayerfile(p2, li); err != nil {
		return obj("r1", r1, "cls", "err:write")
	}
	written, err := ioutil.ReadFile(p2)
	if err != nil {
		return obj("r1", r1, "cls", "err:readback")
	}
	return obj("cls", "ok", "r1", r1, "written", hx(string(written)), "r2", c11Read(p2))
}

func init() {
	ops["layerfile.rwr"] = runLayerfileRWR

	register("c11", func(g *Gen, tier string, emit func(Case)) {
		n := 400
		if tier == "thorough" {
			n = 15000
		}
		// fixed texts first: the skeleton, the empty file, a file without final newline
		for _, t := range []string{"", "\n", "base x", "import rbind /dev /dev\nimport proc /proc /proc\nimport rbind $$base/packages /var/cache/binpkgs",
			"base a\n\nimport rbind /dev /dev\n\nexport symlink /var/tmp/x $$file_export\n"} {
			emit(Case{"op": "layerfile.rwr", "text": hx(t), "stream": "fixed"})
		}
		// lines at and around bufio.Scanner's 64 KiB token limit (a comment, an import with a
		// long path, a line of blanks), with LF or CRLF, last in the file with and without final
		// newline, content before and after: the reader must report what it cannot hold
		for _, ln := range []int{65534, 65535, 65536, 65537, 70000} {
			for _, kind := range []string{"comment", "import"} {
				long := ""
				switch kind {
				case "comment":
					long = "# " + strings.Repeat("x", ln-2)
				case "import":
					// made long by blanks between the fields: the model's field splitter is quadratic
					// in the length of one field
					long = "import bind /src" + strings.Repeat(" ", ln-len("import bind /src/m")) + "/m"
				default:
					long = strings.Repeat(" ", ln)
				}
				before := "base b0\nimport proc /proc /proc\n"
				after := "import rbind /dev /dev\nexport symlink /var/tmp/x $$file_export\n"
				for _, t := range []string{before + long + "\n" + after, before + long + "\r\n" + after, before + long} {
					emit(Case{"op": "layerfile.rwr", "text": hx(t), "stream": "longline"})
				}
			}
		}
		for i := 0; i < n; i++ {
			t := c11Text(g)
			emit(Case{"op": "layerfile.rwr", "text": hx(t), "stream": "structured"})
			if i%3 == 0 {
				emit(Case{"op": "layerfile.rwr", "text": hx(mutateText(g, t)), "stream": "malformed"})
			}
		}
	})
}
