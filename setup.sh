#!/bin/sh
# Offline setup: build the Lean project (library, property theorems, driver) and
# warm the Go build cache for the harness.  Everything comes from files on disk.
set -e
cd "$(dirname "$0")"
export GOFLAGS=-mod=mod GOPROXY=off GOSUMDB=off GOTOOLCHAIN=local CGO_ENABLED=0
(cd lean && lake build)
mkdir -p evidence replays
tmp=$(mktemp -d /var/tmp/verif-setup-XXXXXX)
trap 'rm -rf "$tmp"' EXIT
cp -r harness "$tmp/harness"
(cd "$tmp/harness" && go build -tags verif -o "$tmp/lcharness" .)
echo setup ok
