module unigen
go 1.14
