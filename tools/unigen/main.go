package main

import (
	"fmt"
	"unicode"
)

func main() {
	// ranges of unicode.L ∪ unicode.Nd as (lo, hi) inclusive, merged
	var in []bool = make([]bool, 0x110000)
	for r := rune(0); r < 0x110000; r++ {
		if unicode.In(r, unicode.L, unicode.Nd) {
			in[r] = true
		}
	}
	fmt.Println("/- Generated from Go's unicode tables (unicode.L ∪ unicode.Nd), Unicode", unicode.Version, "-/")
	fmt.Println("namespace Lc.Generated")
	fmt.Println("def unicodeVersion : String := \"" + unicode.Version + "\"")
	fmt.Println("def letterDigitRanges : List (Nat × Nat) := [")
	first := true
	for r := 0; r < 0x110000; {
		if !in[r] {
			r++
			continue
		}
		lo := r
		for r < 0x110000 && in[r] {
			r++
		}
		if !first {
			fmt.Print(",\n")
		}
		first = false
		fmt.Printf("  (%d, %d)", lo, r-1)
	}
	fmt.Println("]")
	fmt.Println("end Lc.Generated")
}
