// extract: regenerates lean/Lc/Generated/Guards.lean from /repo's Go source (go/ast only).
//
// Facts (C15, C10):
//   * every call of a mutating primitive inside package fs, and whether it is dominated by
//     the pretender (inside `if WriteOK(...) {` or after `if !WriteOK(...) { return }`);
//   * every direct call of such a primitive in the other layercake packages;
//   * for every command function of cmd/layercake: whether getArgs (which installs the
//     pretender) is called before anything that can reach a mutator;
//   * the dispatch table of main;
//   * statements that drop an error: `fmt.Errorf(...)` as an expression statement, a call of
//     a fallible fs function whose result is discarded, `return nil` inside `if err != nil`.
// Anything not understood is emitted as unguarded / suspicious (default deny).
package main

import (
	"fmt"
	"go/ast"
	"go/parser"
	"go/token"
	"os"
	"path/filepath"
	"sort"
	"strings"
)

var mutators = map[string]bool{
	"os.MkdirAll": true, "os.Mkdir": true, "os.Symlink": true, "os.Rename": true, "os.RemoveAll": true,
	"os.Remove": true, "os.Create": true, "os.OpenFile": true, "os.Chmod": true, "os.Chown": true,
	"os.Truncate": true, "os.WriteFile": true, "ioutil.WriteFile": true, "os.Link": true, "os.Mknod": true,
	"syscall.Mount": true, "syscall.Unmount": true, "syscall.Mknod": true, "syscall.Symlink": true,
	"syscall.Rename": true, "syscall.Unlink": true, "syscall.Rmdir": true, "syscall.Mkdir": true,
	"SyscallMount": true, "SyscallUnmount": true, "fs.SyscallMount": true, "fs.SyscallUnmount": true,
}

// fallible primitives of package fs whose error must not be dropped by callers
var fallibleFs = map[string]bool{
	"fs.Mkdir": true, "fs.WriteTextFile": true, "fs.Symlink": true, "fs.Rename": true, "fs.Remove": true,
	"fs.Mount": true, "fs.Unmount": true,
}

func callName(c *ast.CallExpr) string {
	switch f := c.Fun.(type) {
	case *ast.Ident:
		return f.Name
	case *ast.SelectorExpr:
		if x, ok := f.X.(*ast.Ident); ok {
			return x.Name + "." + f.Sel.Name
		}
		return "?." + f.Sel.Name
	}
	return "?"
}

func isWriteOKCall(e ast.Expr) bool {
	c, ok := e.(*ast.CallExpr)
	return ok && (callName(c) == "WriteOK" || callName(c) == "fs.WriteOK")
}

func isNotWriteOK(e ast.Expr) bool {
	u, ok := e.(*ast.UnaryExpr)
	return ok && u.Op == token.NOT && isWriteOKCall(u.X)
}

// os.OpenFile is a mutator only when opened for writing
func openIsReadOnly(c *ast.CallExpr) bool {
	if callName(c) != "os.OpenFile" || len(c.Args) < 2 {
		return false
	}
	s := fmt.Sprint(exprString(c.Args[1]))
	return s == "os.O_RDONLY"
}

func exprString(e ast.Expr) string {
	switch x := e.(type) {
	case *ast.Ident:
		return x.Name
	case *ast.SelectorExpr:
		return exprString(x.X) + "." + x.Sel.Name
	case *ast.BinaryExpr:
		return exprString(x.X) + x.Op.String() + exprString(x.Y)
	}
	return "?"
}

type site struct {
	file, fn, callee string
	guarded          bool
}

func endsInReturn(b *ast.BlockStmt) bool {
	if len(b.List) == 0 {
		return false
	}
	_, ok := b.List[len(b.List)-1].(*ast.ReturnStmt)
	return ok
}

// walkStmts records mutator calls; guarded = we are in a region dominated by WriteOK
func walkStmts(list []ast.Stmt, guarded bool, file, fn string, out *[]site) {
	for _, st := range list {
		switch s := st.(type) {
		case *ast.IfStmt:
			if s.Init != nil {
				walkStmts([]ast.Stmt{s.Init}, guarded, file, fn, out)
			}
			inspectExpr(s.Cond, guarded, file, fn, out)
			if isWriteOKCall(s.Cond) {
				walkStmts(s.Body.List, true, file, fn, out)
			} else {
				walkStmts(s.Body.List, guarded, file, fn, out)
			}
			if s.Else != nil {
				walkStmts([]ast.Stmt{s.Else}, guarded, file, fn, out)
			}
			if isNotWriteOK(s.Cond) && endsInReturn(s.Body) {
				guarded = true // everything after `if !WriteOK(..) { return }`
			}
		case *ast.BlockStmt:
			walkStmts(s.List, guarded, file, fn, out)
		case *ast.ForStmt:
			walkStmts(s.Body.List, guarded, file, fn, out)
		case *ast.RangeStmt:
			walkStmts(s.Body.List, guarded, file, fn, out)
		case *ast.SwitchStmt:
			for _, cc := range s.Body.List {
				walkStmts(cc.(*ast.CaseClause).Body, guarded, file, fn, out)
			}
		default:
			ast.Inspect(st, func(n ast.Node) bool {
				if fl, ok := n.(*ast.FuncLit); ok {
					walkStmts(fl.Body.List, guarded, file, fn, out)
					return false
				}
				if c, ok := n.(*ast.CallExpr); ok {
					record(c, guarded, file, fn, out)
				}
				return true
			})
		}
	}
}

func inspectExpr(e ast.Expr, guarded bool, file, fn string, out *[]site) {
	ast.Inspect(e, func(n ast.Node) bool {
		if c, ok := n.(*ast.CallExpr); ok {
			record(c, guarded, file, fn, out)
		}
		return true
	})
}

func record(c *ast.CallExpr, guarded bool, file, fn string, out *[]site) {
	name := callName(c)
	if mutators[name] && !openIsReadOnly(c) {
		*out = append(*out, site{file, fn, name, guarded})
	}
}

type dropped struct{ file, fn, what string }

func findDropped(f *ast.File, file string, out *[]dropped) {
	for _, d := range f.Decls {
		fd, ok := d.(*ast.FuncDecl)
		if !ok || fd.Body == nil {
			continue
		}
		ast.Inspect(fd.Body, func(n ast.Node) bool {
			switch s := n.(type) {
			case *ast.ExprStmt:
				if c, ok := s.X.(*ast.CallExpr); ok {
					nm := callName(c)
					if nm == "fmt.Errorf" || nm == "errors.New" {
						*out = append(*out, dropped{file, fd.Name.Name, "error value built and discarded: " + nm})
					}
					if fallibleFs[nm] {
						*out = append(*out, dropped{file, fd.Name.Name, "result of " + nm + " discarded"})
					}
				}
			case *ast.IfStmt:
				// if err != nil { ... return nil }
				if b, ok := s.Cond.(*ast.BinaryExpr); ok && b.Op == token.NEQ {
					l, r := exprString(b.X), exprString(b.Y)
					if (l == "err" && r == "nil") || (l == "nil" && r == "err") {
						for _, st := range s.Body.List {
							if rs, ok := st.(*ast.ReturnStmt); ok && len(rs.Results) == 1 && exprString(rs.Results[0]) == "nil" {
								*out = append(*out, dropped{file, fd.Name.Name, "return nil inside if err != nil"})
							}
						}
					}
				}
			}
			return true
		})
	}
}

func lstr(s string) string { return fmt.Sprintf("%q", s) }

func main() {
	repo := os.Args[1]
	fset := token.NewFileSet()
	parseDir := func(rel string) map[string]*ast.File {
		out := map[string]*ast.File{}
		files, _ := filepath.Glob(filepath.Join(repo, rel, "*.go"))
		for _, p := range files {
			base := filepath.Base(p)
			if strings.HasSuffix(base, "_test.go") || strings.HasPrefix(base, "verif_") {
				continue
			}
			f, err := parser.ParseFile(fset, p, nil, 0)
			if err != nil {
				fmt.Fprintln(os.Stderr, err)
				os.Exit(1)
			}
			out[rel+"/"+base] = f
		}
		return out
	}
	var fsSites, outside []site
	var drops []dropped
	for name, f := range parseDir("fs") {
		for _, d := range f.Decls {
			if fd, ok := d.(*ast.FuncDecl); ok && fd.Body != nil {
				walkStmts(fd.Body.List, false, name, fd.Name.Name, &fsSites)
			}
		}
		findDropped(f, name, &drops)
	}
	for _, pkg := range []string{"manage", "cmd/layercake", "config", "fns", "defaults"} {
		for name, f := range parseDir(pkg) {
			for _, d := range f.Decls {
				if fd, ok := d.(*ast.FuncDecl); ok && fd.Body != nil {
					walkStmts(fd.Body.List, false, name, fd.Name.Name, &outside)
				}
			}
			if pkg == "manage" || pkg == "cmd/layercake" {
				findDropped(f, name, &drops)
			}
		}
	}
	// command functions and dispatch table
	type cmdFn struct {
		name            string
		getArgsFirst    bool
		firstOtherCall  string
	}
	var cmds []cmdFn
	var dispatch [][2]string
	for _, f := range parseDir("cmd/layercake") {
		for _, d := range f.Decls {
			fd, ok := d.(*ast.FuncDecl)
			if !ok || fd.Body == nil {
				continue
			}
			if fd.Recv == nil {
				c := cmdFn{name: fd.Name.Name}
				seenGetArgs := false
				decided := false
				ast.Inspect(fd.Body, func(n ast.Node) bool {
					if decided {
						return false
					}
					if call, ok := n.(*ast.CallExpr); ok {
						nm := callName(call)
						if strings.HasSuffix(nm, ".getArgs") {
							seenGetArgs = true
						} else if strings.HasSuffix(nm, ".getLayers") || strings.HasPrefix(nm, "manage.") || strings.HasPrefix(nm, "layers.") {
							c.getArgsFirst = seenGetArgs
							c.firstOtherCall = nm
							decided = true
						}
					}
					return true
				})
				if !decided {
					c.getArgsFirst = seenGetArgs
				}
				cmds = append(cmds, c)
			}
		}
		// the dispatch table, in whichever of the usual shapes and wherever in the package it is
		// written: a map literal from command word to function, or a slice / array literal of
		// entries that pair one string literal with one function name
		ast.Inspect(f, func(n ast.Node) bool {
			cl, ok := n.(*ast.CompositeLit)
			if !ok {
				return true
			}
			switch t := cl.Type.(type) {
			case *ast.MapType:
				if exprString(t.Key) != "string" {
					return true
				}
				if _, isFn := t.Value.(*ast.FuncType); !isFn {
					return true
				}
				for _, el := range cl.Elts {
					kv, ok := el.(*ast.KeyValueExpr)
					if !ok {
						continue
					}
					if bl, ok := kv.Key.(*ast.BasicLit); ok {
						dispatch = append(dispatch, [2]string{strings.Trim(bl.Value, "\""), exprString(kv.Value)})
					}
				}
			case *ast.ArrayType:
				for _, el := range cl.Elts {
					ecl, ok := el.(*ast.CompositeLit)
					if !ok {
						continue
					}
					var word, fn string
					nStr, nFn := 0, 0
					for _, fe := range ecl.Elts {
						v := fe
						if kv, ok := fe.(*ast.KeyValueExpr); ok {
							v = kv.Value
						}
						switch x := v.(type) {
						case *ast.BasicLit:
							if x.Kind == token.STRING {
								word = strings.Trim(x.Value, "\"")
								nStr++
							}
						case *ast.Ident:
							fn = x.Name
							nFn++
						}
					}
					if nStr == 1 && nFn == 1 {
						dispatch = append(dispatch, [2]string{word, fn})
					}
				}
			}
			return true
		})
	}
	// the command functions are the functions the dispatch table names (whatever they are
	// called); a table entry that names no function of the package is kept and will fail
	// `dispatch_targets_are_commands`; array entries whose identifier is no function are not
	// table entries
	byName := map[string]cmdFn{}
	for _, c := range cmds {
		byName[c.name] = c
	}
	var table [][2]string
	targets := map[string]bool{}
	for _, d := range dispatch {
		if _, ok := byName[d[1]]; ok || strings.HasSuffix(d[1], "Command") {
			table = append(table, d)
			targets[d[1]] = true
		}
	}
	dispatch = table
	cmds = cmds[:0]
	for name := range targets {
		if c, ok := byName[name]; ok {
			cmds = append(cmds, c)
		}
	}
	sort.Slice(fsSites, func(i, j int) bool { return fmt.Sprint(fsSites[i]) < fmt.Sprint(fsSites[j]) })
	sort.Slice(outside, func(i, j int) bool { return fmt.Sprint(outside[i]) < fmt.Sprint(outside[j]) })
	sort.Slice(drops, func(i, j int) bool { return fmt.Sprint(drops[i]) < fmt.Sprint(drops[j]) })
	sort.Slice(cmds, func(i, j int) bool { return cmds[i].name < cmds[j].name })
	sort.Slice(dispatch, func(i, j int) bool { return dispatch[i][0] < dispatch[j][0] })

	fmt.Println("/- GENERATED by tools/extract from /repo's Go source on every check run. Do not edit. -/")
	fmt.Println("namespace Lc.Generated")
	fmt.Println("structure MutSite where\n  file : String\n  fn : String\n  callee : String\n  guarded : Bool\n  deriving Repr, DecidableEq")
	fmt.Println("structure CmdFn where\n  name : String\n  getArgsFirst : Bool\n  deriving Repr, DecidableEq")
	fmt.Println("structure Dropped where\n  file : String\n  fn : String\n  what : String\n  deriving Repr, DecidableEq")
	pr := func(name string, ss []site) {
		fmt.Printf("def %s : List MutSite := [", name)
		for i, s := range ss {
			if i > 0 {
				fmt.Print(",")
			}
			fmt.Printf("\n  ⟨%s, %s, %s, %v⟩", lstr(s.file), lstr(s.fn), lstr(s.callee), s.guarded)
		}
		fmt.Println("]")
	}
	pr("fsMutatorSites", fsSites)
	pr("outsideMutatorSites", outside)
	fmt.Print("def commandFns : List CmdFn := [")
	for i, c := range cmds {
		if i > 0 {
			fmt.Print(",")
		}
		fmt.Printf("\n  ⟨%s, %v⟩", lstr(c.name), c.getArgsFirst)
	}
	fmt.Println("]")
	fmt.Print("def dispatchTable : List (String × String) := [")
	for i, d := range dispatch {
		if i > 0 {
			fmt.Print(",")
		}
		fmt.Printf("\n  (%s, %s)", lstr(d[0]), lstr(d[1]))
	}
	fmt.Println("]")
	fmt.Print("def droppedErrors : List Dropped := [")
	for i, d := range drops {
		if i > 0 {
			fmt.Print(",")
		}
		fmt.Printf("\n  ⟨%s, %s, %s⟩", lstr(d.file), lstr(d.fn), lstr(d.what))
	}
	fmt.Println("]")
	fmt.Println("end Lc.Generated")
}
