#!/usr/bin/env python3
"""Confirm and try a batch of seeded changes written by a sub-agent.

usage: tools/batch_mutants.py <agent-worktree> <property-id> [<other-property-id> ...]

For each <agent-worktree>/mutants/<n>/ (patch.diff, demo, meta.json):
  1. in a scratch worktree of /repo's HEAD: the patch applies, `go build ./...` and the
     existing suite pass, the demonstration (meta.demo_cmd) FAILS with the patch and PASSES
     without it                                                          -> confirmed
  2. the patch is applied to a scratch copy of /repo (VERIF_REPO) and ./check is run for
     the property (and the other properties given)                      -> caught / missed
Prints one JSON line per change.  /repo itself is never modified.
"""
import json, os, subprocess, sys, shutil

ENV = dict(os.environ, GOFLAGS="-mod=mod", GOPROXY="off", GOSUMDB="off", GOTOOLCHAIN="local")
VERIF = os.path.dirname(os.path.dirname(os.path.abspath(__file__)))
TAG = os.environ.get("BM_TAG", "")
WT = "/tmp/confirm-wt" + TAG
MREPO = "/var/tmp/mrepo" + TAG


def sh(cmd, cwd, timeout=900):
    try:
        r = subprocess.run(["sh", "-c", cmd], cwd=cwd, env=ENV, stdout=subprocess.PIPE,
                           stderr=subprocess.STDOUT, timeout=timeout)
        return r.returncode, r.stdout.decode(errors="replace")
    except subprocess.TimeoutExpired:
        return 124, "timeout"


def fresh_wt():
    subprocess.run(["git", "-C", "/repo", "worktree", "remove", "--force", WT],
                   stdout=subprocess.DEVNULL, stderr=subprocess.DEVNULL)
    subprocess.run(["git", "-C", "/repo", "worktree", "add", "-q", "--detach", WT, "HEAD"], check=True)


def sync_mrepo():
    if not os.path.isdir(MREPO):
        subprocess.run(["cp", "-a", "/repo", MREPO], check=True)
    sh("git checkout -q -- . && git clean -fdq && git fetch -q /repo main && git reset -q --hard FETCH_HEAD", MREPO)


def main():
    src, props = sys.argv[1], sys.argv[2:]
    sync_mrepo()
    nums = sorted(d for d in os.listdir(os.path.join(src, "mutants")) if d.isdigit())
    for n in nums:
        d = os.path.join(src, "mutants", n)
        meta = json.load(open(os.path.join(d, "meta.json")))
        res = {"n": n, "summary": meta.get("summary", "")[:100]}
        fresh_wt()
        shutil.copytree(os.path.join(src, "mutants"), os.path.join(WT, "mutants"))
        patch = os.path.join(d, "patch.diff")
        rc, out = sh("git apply '%s' && go build ./... && go test -count=1 ./... 2>&1 | tail -15" % patch, WT)
        res["builds_and_suite_passes"] = rc == 0 and "FAIL" not in out
        rc1, o1 = sh(meta["demo_cmd"], WT)
        fail_with = rc1 != 0 or "FAIL" in o1
        sh("git checkout -q -- . && git clean -fdq -e mutants", WT)
        rc2, o2 = sh(meta["demo_cmd"], WT)
        pass_without = rc2 == 0 and "FAIL" not in o2
        res["demo_fails_with"] = fail_with
        res["demo_passes_without"] = pass_without
        if not pass_without:
            res["demo_out_without"] = o2[-400:]
        res["confirmed"] = bool(res["builds_and_suite_passes"] and fail_with and pass_without)
        # the checks
        sh("git checkout -q -- . && git clean -fdq", MREPO)
        rc, out = sh("git apply '%s'" % patch, MREPO)
        res["checks"] = {}
        for p in props:
            rc, out = sh("VERIF_EVIDENCE_DIR=/var/tmp/mutant-evidence%s VERIF_REPO=%s ./check %s --seed 1 2>&1 | grep -v '^KNOWN-FINDING' | tail -2" % (TAG, MREPO, p), VERIF, 3000)
            viol = [l for l in out.splitlines() if l.startswith("VIOLATION")]
            res["checks"][p] = (viol[0].split("replay=")[-1].replace(VERIF + "/replays/", "") if viol else "missed")
        sh("git checkout -q -- . && git clean -fdq", MREPO)
        # seeded changes run as root: one of them may delete a device node it is handed as a
        # file name (the existing suite loads /dev/null as a configuration file)
        import stat as _stat
        try:
            ok = _stat.S_ISCHR(os.stat("/dev/null").st_mode)
        except OSError:
            ok = False
        if not ok:
            res["dev_null_damaged"] = True
            subprocess.run(["sh", "-c", "rm -f /dev/null; mknod -m 666 /dev/null c 1 3"])
        print(json.dumps(res), flush=True)
    subprocess.run(["git", "-C", "/repo", "worktree", "remove", "--force", WT],
                   stdout=subprocess.DEVNULL, stderr=subprocess.DEVNULL)


if __name__ == "__main__":
    main()
