#!/usr/bin/env python3
"""Regenerates seeded/README.md from the meta.json of every seeded change."""
import json, os, glob
root = os.path.join(os.path.dirname(os.path.abspath(__file__)), "..", "seeded")
head = """# Seeded defects

One directory per change: `patch.diff` (against /repo's HEAD), the demonstration, `meta.json`.
`*-agent-*`: written by independent sub-agents that saw only the property text; `revert-*`:
a `fix:` commit reverted (natural mutant); `c18-*`, `mutant-*`: made by the builders.
Apply with `tools/try_mutant.sh <patch> <property>` (restores /repo afterwards); confirm
with `tools/confirm_mutant.sh <dir> <package-dir>`.

| change | property | what it does | caught by |
|---|---|---|---|
"""
rows = []
for d in sorted(glob.glob(os.path.join(root, "*", "meta.json"))):
    name = os.path.basename(os.path.dirname(d))
    m = json.load(open(d))
    prop = m.get("property", "")
    if isinstance(prop, list):
        prop = ",".join(prop)
    what = (m.get("summary") or m.get("kind") or "").replace("|", "/").replace("\n", " ")
    caught = (m.get("caught_by") or "").replace("|", "/").replace("\n", " ")
    rows.append("| %s | %s | %s | %s |" % (name, prop, what[:220], caught))
open(os.path.join(root, "README.md"), "w").write(head + "\n".join(rows) + "\n")
print(len(rows), "rows")
