#!/usr/bin/env python3
"""Run behaviour-preserving changes against ALL checks: none may raise an alarm.

usage: tools/batch_neutral.py [-j N] [--props C03,C10,...] <dir-with-neutral/<n>/patch.diff> ...

For each <dir>/neutral/<n>/ (patch.diff, meta.json): the patch is applied to a scratch copy of
/repo's HEAD (one per worker, under /var/tmp), the existing suite is run (must pass), then every
registered check is run with VERIF_REPO pointing at the copy and evidence redirected; one JSON
line per change with the checks that printed VIOLATION (expected: none).  /repo itself is never modified
and the committed evidence is not touched.  The scratch copies are removed at the end.
"""
import json, os, subprocess, sys, shutil, threading, queue

ENV = dict(os.environ, GOFLAGS="-mod=mod", GOPROXY="off", GOSUMDB="off", GOTOOLCHAIN="local")
VERIF = os.path.dirname(os.path.dirname(os.path.abspath(__file__)))


def sh(cmd, cwd, timeout=3000):
    try:
        r = subprocess.run(["sh", "-c", cmd], cwd=cwd, env=ENV, stdout=subprocess.PIPE,
                           stderr=subprocess.STDOUT, timeout=timeout)
        return r.returncode, r.stdout.decode(errors="replace")
    except subprocess.TimeoutExpired:
        return 124, "timeout"


PROPS = ["C%02d" % i for i in range(1, 21)]


def worker(k, q, tier, lock):
    mrepo = "/var/tmp/bn-repo-%d-%d" % (os.getpid(), k)
    evid = "/var/tmp/bn-evidence-%d-%d" % (os.getpid(), k)
    shutil.rmtree(mrepo, ignore_errors=True)
    subprocess.run(["git", "clone", "-q", "/repo", mrepo], check=True)
    while True:
        try:
            name = q.get_nowait()
        except queue.Empty:
            break
        d = name
        try:
            meta = json.load(open(os.path.join(d, "meta.json")))
        except Exception:
            meta = {}
        res = {"name": name, "kind": meta.get("kind"), "summary": (meta.get("summary") or "")[:120]}
        sh("git checkout -q -- . && git clean -fdq", mrepo)
        rc, out = sh("git apply '%s/patch.diff'" % d, mrepo)
        if rc != 0:
            res["result"] = "patch-does-not-apply"
        else:
            rc, out = sh("go build ./... && go test -count=1 ./... 2>&1 | tail -15", mrepo)
            res["suite_passes"] = rc == 0 and "FAIL" not in out
            res["alarms"] = {}
            for prop in PROPS:
                rc, out = sh("VERIF_EVIDENCE_DIR=%s VERIF_REPO=%s ./check %s --tier %s --seed 1 2>&1 | grep -v '^KNOWN-FINDING' | tail -3"
                             % (evid, mrepo, prop, tier), VERIF)
                viol = [l for l in out.splitlines() if l.startswith("VIOLATION")]
                if viol or "exit=0" not in out:
                    res["alarms"][prop] = (viol[0].split("replay=")[-1].replace(VERIF + "/replays/", "") if viol else out[-300:])
        with lock:
            print(json.dumps(res), flush=True)
    shutil.rmtree(mrepo, ignore_errors=True)
    shutil.rmtree(evid, ignore_errors=True)


def main():
    args = sys.argv[1:]
    j, tier, prefixes = 4, "quick", []
    while args:
        a = args.pop(0)
        if a == "-j":
            j = int(args.pop(0))
        elif a == "--tier":
            tier = args.pop(0)
        elif a == "--props":
            PROPS[:] = args.pop(0).split(",")
        else:
            prefixes.append(a)
    names = []
    for p in prefixes:
        nd = os.path.join(p, "neutral")
        for n in sorted(os.listdir(nd)):
            if os.path.isfile(os.path.join(nd, n, "patch.diff")):
                names.append(os.path.join(nd, n))
    q = queue.Queue()
    for n in names:
        q.put(n)
    lock = threading.Lock()
    ts = [threading.Thread(target=worker, args=(k, q, tier, lock)) for k in range(j)]
    for t in ts:
        t.start()
    for t in ts:
        t.join()


if __name__ == "__main__":
    main()
