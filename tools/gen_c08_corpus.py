#!/usr/bin/env python3
"""Writes corpus/C08/*.jsonl: hand-built scenario cases for the state classification.
The host table of a case is the initial kernel mount table, so any subset of a layer's
expected mounts (and wrong-source / foreign mounts) can be present before the first step.
Deterministic; re-run after changing it:  python3 tools/gen_c08_corpus.py"""
import json, os, itertools

here = os.path.dirname(os.path.abspath(__file__))
out_dir = os.path.join(here, "..", "corpus", "C08")
os.makedirs(out_dir, exist_ok=True)

def hx(s):
    return s.encode().hex()

VB = "/VB"
CFG = {"basepath": hx(VB), "binPkg": hx("packages"), "buildRoot": hx("build"), "exportBinPkg": hx("packages"),
       "exportGenerated": hx("generated"), "exportdirs": hx(VB + "/export"), "generated": hx("generated"),
       "layerdirs": hx(VB + "/layers"), "upperdir": hx("overlayfs/upperdir"), "workdir": hx("overlayfs/workdir")}
FHS = ["bin", "etc", "lib", "opt", "root", "sbin", "usr"]

def host(extra=(), base_root="/"):
    t = [[1, 0, "8:1", "/", "/", "ext4", "/dev/sda1", "", "", ""],
         [2, 1, "0:4", "/", "/proc", "proc", "proc", "", "", ""],
         [3, 1, "0:16", "/", "/sys", "sysfs", "sysfs", "", "", ""],
         [4, 1, "0:6", "/", "/dev", "devtmpfs", "devtmpfs", "", "", ""],
         [7, 1, "0:19", "/", "/run", "tmpfs", "tmpfs", "", "", ""]]
    if base_root != "/":
        t.append([8, 1, "8:2", base_root, VB, "btrfs", "/dev/sdb1", "", "", ""])
    t += list(extra)
    return [[m[0], m[1]] + [hx(x) for x in m[2:]] for m in t]

class Tree:
    def __init__(self):
        self.e = {}
        for d in ["/", "/dev", "/proc", "/sys", "/run", VB, VB + "/layers", VB + "/export", VB + "/hostsrc", VB + "/hostsrc/sub"]:
            self.dir(d)
        self.file(VB + "/default_layerconfig.skel", "import proc /proc /proc\n")
    def dir(self, p):
        parts = p.strip("/").split("/") if p != "/" else []
        cur = ""
        self.e.setdefault("/", ["d"])
        for c in parts:
            cur += "/" + c
            self.e.setdefault(cur, ["d"])
    def file(self, p, content):
        self.dir(os.path.dirname(p))
        self.e[p] = ["f", content]
    def link(self, p, target):
        self.dir(os.path.dirname(p))
        self.e[p] = ["l", target]
    def list(self):
        return [[hx(p)] + [v[0]] + [hx(x) for x in v[1:]] for p, v in sorted(self.e.items())]

def layer(t, name, base, imports, exports=(), build=True, work=True, upper=True, fhs=FHS, mps=True):
    lp = VB + "/layers/" + name
    cfg = ("base " + base + "\n\n" if base else "") + "".join(i + "\n" for i in imports)
    if exports:
        cfg += "\n" + "".join(e + "\n" for e in exports)
    t.file(lp + "/layerconfig", cfg)
    if build:
        t.dir(lp + "/build")
        for d in fhs:
            t.dir(lp + "/build/" + d)
        if mps:
            for i in imports:
                t.dir(lp + "/build" + i.split()[3])
    if base:
        if work:
            t.dir(lp + "/overlayfs/workdir")
        if upper:
            t.dir(lp + "/overlayfs/upperdir")

IMP = ["import proc /proc /proc", "import rbind /dev /dev"]
def bp(n):
    return VB + "/layers/" + n + "/build"
def m_proc(i, n):
    return [i, 1, "0:4", "/", bp(n) + "/proc", "proc", "proc", "", "", ""]
def m_dev(i, n):
    return [i, 1, "0:6", "/", bp(n) + "/dev", "devtmpfs", "devtmpfs", "", "", ""]
def m_ovl(i, n, lower, dev="0:61"):
    lp = VB + "/layers/" + n
    return [i, 1, dev, "/", bp(n), "overlay", "overlay", bp(lower), lp + "/overlayfs/upperdir", lp + "/overlayfs/workdir"]

def case(cid, note, tree, hostt, steps):
    return {"op": "scenario", "suite": "scn-corpus", "id": cid, "note": note, "cfg": CFG, "tree": tree.list(),
            "host": hostt, "steps": steps}

def step(cmd, *args, **kw):
    s = {"cmd": cmd, "args": [hx(a) for a in args]}
    s.update(kw)
    return s

cases = []

# 1. every subset of {overlay, proc, dev} of the derived layer d1 present, b0 fully mounted
for k, sub in enumerate(itertools.product([0, 1], repeat=3)):
    t = Tree()
    layer(t, "b0", "", IMP)
    layer(t, "d1", "b0", IMP)
    ms = [m_proc(20, "b0"), m_dev(21, "b0")]
    if sub[0]:
        ms.append(m_ovl(30, "d1", "b0"))
    if sub[1]:
        ms.append(m_proc(31, "d1"))
    if sub[2]:
        ms.append(m_dev(32, "d1"))
    cases.append(case("mounts-d1-%d%d%d" % sub, "derived layer with overlay/proc/dev present = %s; overlay + one of two imports must be 'partially mounted' (fix a2e90fd)" % (sub,),
                      t, host(ms), [step("probe"), step("chroot", "d1"), step("probe")]))

# 2. every subset of the imports of the base layer b0 present
for k, sub in enumerate(itertools.product([0, 1], repeat=2)):
    t = Tree()
    layer(t, "b0", "", IMP)
    ms = ([m_proc(20, "b0")] if sub[0] else []) + ([m_dev(21, "b0")] if sub[1] else [])
    cases.append(case("mounts-b0-%d%d" % sub, "base layer with proc/dev present = %s" % (sub,), t, host(ms),
                      [step("probe"), step("mount", "b0"), step("probe")]))

# 3. every subset of {build, work, upper} of the derived layer present; probe, mkdirs, probe
for sub in itertools.product([0, 1], repeat=3):
    t = Tree()
    layer(t, "b0", "", IMP)
    layer(t, "d1", "b0", IMP, build=bool(sub[0]), work=bool(sub[1]), upper=bool(sub[2]))
    cases.append(case("dirs-d1-%d%d%d" % sub, "derived layer with build/work/upper present = %s; one overlay directory missing must be 'incomplete' (fix 2d2b96a), mkdirs recreates" % (sub,),
                      t, host(), [step("probe"), step("mkdirs", "d1"), step("probe"), step("mount", "d1"), step("probe")]))

# 4. mount of the derived layer failing at the k-th operation (partial stacks made by layercake itself)
for k in range(1, 7):
    t = Tree()
    layer(t, "b0", "", IMP)
    layer(t, "d1", "b0", IMP)
    cases.append(case("mount-fault-%d" % k, "mount d1 with the %d-th operation failing, then probe" % k, t, host(),
                      [step("mount", "d1", fault=float(k)), step("probe"), step("mount", "d1"), step("probe")]))

# 5. wrong-source and foreign mounts
t = Tree(); layer(t, "b0", "", IMP)
cases.append(case("wrong-source-proc", "a tmpfs sits on the proc mountpoint: error", t,
                  host([[20, 1, "0:40", "/", bp("b0") + "/proc", "tmpfs", "tmpfs", "", "", ""]]), [step("probe")]))
t = Tree(); layer(t, "b0", "", IMP)
cases.append(case("wrong-source-dev", "/run bound on the dev mountpoint: error", t,
                  host([[20, 1, "0:19", "/", bp("b0") + "/dev", "tmpfs", "tmpfs", "", "", ""]]), [step("probe")]))
t = Tree(); layer(t, "b0", "", IMP); t.dir(bp("b0") + "/mnt/foreign")
cases.append(case("foreign-mount", "a mount on a mountpoint that is not configured does not change the state", t,
                  host([[20, 1, "0:40", "/", bp("b0") + "/mnt/foreign", "tmpfs", "tmpfs", "", "", ""]]), [step("probe"), step("mount", "b0"), step("probe")]))
t = Tree(); layer(t, "b0", "", IMP); layer(t, "d1", "b0", IMP)
cases.append(case("wrong-overlay-lower", "overlay on d1 with another lower directory: error", t,
                  host([m_proc(20, "b0"), m_dev(21, "b0"),
                        [30, 1, "0:61", "/", bp("d1"), "overlay", "overlay", "/VB/hostsrc", VB + "/layers/d1/overlayfs/upperdir", VB + "/layers/d1/overlayfs/workdir"]]),
                  [step("probe")]))
# overlay directories that merely share a prefix with the configured ones (or extend them)
for which, lo, up, wk in [("work-longer", bp("b0"), VB + "/layers/d1/overlayfs/upperdir", VB + "/layers/d1/overlayfs/workdir_old"),
                          ("work-below", bp("b0"), VB + "/layers/d1/overlayfs/upperdir", VB + "/layers/d1/overlayfs/workdir/sub"),
                          ("upper-longer", bp("b0"), VB + "/layers/d1/overlayfs/upperdir2", VB + "/layers/d1/overlayfs/workdir"),
                          ("lower-longer", bp("b0") + "x", VB + "/layers/d1/overlayfs/upperdir", VB + "/layers/d1/overlayfs/workdir"),
                          ("lower-below", bp("b0") + "/usr", VB + "/layers/d1/overlayfs/upperdir", VB + "/layers/d1/overlayfs/workdir")]:
    t = Tree(); layer(t, "b0", "", IMP); layer(t, "d1", "b0", IMP)
    t.dir(VB + "/layers/d1/overlayfs/workdir_old"); t.dir(VB + "/layers/d1/overlayfs/workdir/sub"); t.dir(VB + "/layers/d1/overlayfs/upperdir2"); t.dir(bp("b0") + "x")
    cases.append(case("wrong-overlay-" + which, "overlay on d1 whose %s directory only shares a prefix with the configured one: error" % which.split("-")[0], t,
                      host([m_proc(20, "b0"), m_dev(21, "b0"), [30, 1, "0:61", "/", bp("d1"), "overlay", "overlay", lo, up, wk]]),
                      [step("probe")]))
# a wrong-source mount on one import's mountpoint while another import lacks its mountpoint
# directory / its host source: the wrong mount decides (error), not the missing piece
t = Tree(); layer(t, "b0", "", IMP + ["import bind /VB/hostsrc /mnt/host"]); t.e.pop(bp("b0") + "/mnt/host", None)
cases.append(case("wrong-source-and-missing-mountpoint", "tmpfs on the proc mountpoint and the mountpoint of another import missing: error", t,
                  host([[20, 1, "0:40", "/", bp("b0") + "/proc", "tmpfs", "tmpfs", "", "", ""]]), [step("probe")]))
t = Tree(); layer(t, "b0", "", IMP + ["import bind /VB/nosuch /mnt/x"])
cases.append(case("wrong-source-and-missing-source", "tmpfs on the proc mountpoint and the host source of another import missing: error", t,
                  host([[20, 1, "0:40", "/", bp("b0") + "/proc", "tmpfs", "tmpfs", "", "", ""]]), [step("probe")]))
t = Tree(); layer(t, "b0", "", IMP); layer(t, "d1", "b0", IMP)
cases.append(case("non-overlay-on-build", "a tmpfs on d1's build directory: error", t,
                  host([m_proc(20, "b0"), m_dev(21, "b0"), [30, 1, "0:41", "/", bp("d1"), "tmpfs", "tmpfs", "", "", ""]]),
                  [step("probe")]))

# 6. missing pieces: FHS directory, mountpoint, host source
t = Tree(); layer(t, "b0", "", IMP, fhs=FHS[:-1])
cases.append(case("fhs-missing", "usr missing: build directories set up", t, host(), [step("probe")]))
t = Tree(); layer(t, "b0", "", IMP, mps=False)
cases.append(case("mountpoint-missing", "mountpoints missing: not yet populated", t, host(), [step("probe")]))
t = Tree(); layer(t, "b0", "", IMP + ["import bind /VB/nosuch /mnt/x"])
cases.append(case("source-missing", "host source missing", t, host(), [step("probe"), step("mount", "b0"), step("probe")]))
t = Tree(); layer(t, "b0", "", ["import proc /proc /proc", "import rbind $$base/packages /var/cache/binpkgs"])
layer(t, "d1", "b0", ["import proc /proc /proc", "import rbind $$base/packages /var/cache/binpkgs"])
cases.append(case("source-in-layers", "a missing source inside the layers directory is created by mount", t, host(),
                  [step("probe"), step("mount", "d1"), step("probe")]))
t = Tree(); layer(t, "b0", "", [])
cases.append(case("no-imports", "a base layer without imports is mountable, never mounted", t, host(), [step("probe"), step("mount", "b0"), step("probe")]))

# 7. exports
EXP = ["export symlink /var/cache/binpkgs $$package_export"]
t = Tree(); layer(t, "b0", "", IMP, EXP); t.dir(bp("b0") + "/var/cache/binpkgs")
t.link(VB + "/export/packages/b0", "/somewhere/else")
cases.append(case("export-elsewhere", "export link pointing elsewhere: error", t, host(), [step("probe")]))
t = Tree(); layer(t, "b0", "", IMP, EXP)
cases.append(case("export-source-missing", "export source missing: not yet populated", t, host(), [step("probe")]))
t = Tree(); layer(t, "b0", "", IMP, EXP); t.dir(bp("b0") + "/var/cache/binpkgs")
t.link(VB + "/export/packages/b0", bp("b0") + "/var/cache/binpkgs")
cases.append(case("export-ok", "export link in place", t, host(), [step("probe"), step("mount", "b0"), step("probe")]))

# 8. former finding mount-source-behind-nonroot-mount (fix 23c682d): base path is a btrfs subvolume (root /sub)
t = Tree(); layer(t, "b0", "", ["import proc /proc /proc", "import rbind /VB/hostsrc /mnt/host"])
cases.append(case("basepath-subvolume", "base path behind a mount whose root is not /: layercake's own rbind of /VB/hostsrc was reported as wrong source (fixed by 23c682d)",
                  t, host(base_root="/sub"), [step("mount", "b0"), step("probe")]))

with open(os.path.join(out_dir, "states.jsonl"), "w") as fh:
    for c in cases:
        fh.write(json.dumps(c, sort_keys=True) + "\n")
print("wrote", len(cases), "cases")

# 9. the regions found by the C08 proofs (Props/C08.lean section 9) and their controls
sus = []
t = Tree(); layer(t, "b0", "", IMP, ["export symlink /.cache $$file_export"]); t.dir(bp("b0") + "/.cache")
sus.append(case("corpus-export-dot", "export source .cache inside the build directory: IsDescendant took it for a path outside, layer in error (fixed by eeedaf2)",
                t, host([m_proc(20, "b0"), m_dev(21, "b0")]), [step("probe")]))
t = Tree(); layer(t, "b0", "", IMP, ["export symlink /cache $$file_export"]); t.dir(bp("b0") + "/cache")
sus.append(case("corpus-export-nodot", "control: export source cache inside the build directory", t,
                host([m_proc(20, "b0"), m_dev(21, "b0")]), [step("probe")]))
t = Tree(); layer(t, "b0", "", ["import proc /proc /proc", "import rbind /VB/hostsrc /mnt/host"])
sus.append(case("corpus-bind-source-on-overlay", "base path on an overlay file system (root /): layercake's own rbind of /VB/hostsrc was reported as wrong source (fixed by 23c682d)",
                t, host([[8, 1, "0:40", "/", VB, "overlay", "overlay", "/lo", "/up", "/wk"]]), [step("mount", "b0"), step("probe")]))
t = Tree(); layer(t, "b0", "", ["import proc /proc /proc", "import rbind /VB/hostsrc/sub /mnt/host"])
sus.append(case("corpus-bind-source-behind-bind", "import source behind a bind mount (root /other/dir of another device mounted on /VB/hostsrc) (fixed by 23c682d)",
                t, host([[8, 1, "8:3", "/other/dir", VB + "/hostsrc", "ext4", "/dev/sdc1", "", "", ""]]), [step("mount", "b0"), step("probe")]))
t = Tree(); layer(t, "b0", "", ["import tmpfs /VB/hostsrc /tmp"])
sus.append(case("corpus-foreign-fstype-same-source", "ramfs made from the configured source string on a tmpfs import's mountpoint: counted as mounted (finding nonbind-import-fstype-not-compared)",
                t, host([[20, 1, "0:61", "/", bp("b0") + "/tmp", "ramfs", "/VB/hostsrc", "", "", ""]]), [step("probe")]))
t = Tree(); layer(t, "b0", "", ["import tmpfs /VB/hostsrc /tmp"])
sus.append(case("corpus-same-fstype-other-source", "tmpfs with source 'none' on a tmpfs import's mountpoint: wrong source, error",
                t, host([[20, 1, "0:61", "/", bp("b0") + "/tmp", "tmpfs", "none", "", "", ""]]), [step("probe")]))
t = Tree(); layer(t, "b0", "", ["import tmpfs /VB/hostsrc /tmp"])
sus.append(case("corpus-own-tmpfs", "control: layercake's own tmpfs mount", t, host(), [step("mount", "b0"), step("probe")]))
t = Tree(); layer(t, "b0", "", IMP); layer(t, "d1", "b0", IMP); t.dir(bp("d1") + "/mnt/x")
sus.append(case("corpus-foreign-below-build-no-overlay", "derived layer without overlay, a foreign mount below its build root that is no import mountpoint: error (fix f9eff6a: any mount at or below)",
                t, host([m_proc(20, "b0"), m_dev(21, "b0"), [30, 1, "0:41", "/", bp("d1") + "/mnt/x", "tmpfs", "tmpfs", "", "", ""]]),
                [step("probe"), step("mount", "d1"), step("probe")]))
with open(os.path.join(out_dir, "suspects.jsonl"), "w") as fh:
    for c in sus:
        fh.write(json.dumps(c, sort_keys=True) + "\n")
print("wrote", len(sus), "suspect cases")
