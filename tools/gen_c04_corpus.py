#!/usr/bin/env python3
"""Writes corpus/C04/child-error.jsonl: a direct child whose layerconfig has a line the
reader does not understand (error state) but which is mounted must protect its parent from
rename and rebase (defect repaired by fix e3cb7aa: ProbeAllLayerstate skipped such layers
before recording their mounts and users).  Uses the tree / host-table helpers of
tools/gen_c08_corpus.py.  Deterministic; re-run after changing it:
python3 tools/gen_c04_corpus.py"""
import json, os

here = os.path.dirname(os.path.abspath(__file__))
src = open(os.path.join(here, "gen_c08_corpus.py")).read()
helpers = src[:src.index("cases = []")].replace("os.makedirs(out_dir, exist_ok=True)", "")
ns = {"__file__": os.path.join(here, "gen_c08_corpus.py")}
exec(helpers, ns)
Tree, layer, host, case, step, bp, VB, IMP, m_proc = (ns[k] for k in
    ["Tree", "layer", "host", "case", "step", "bp", "VB", "IMP", "m_proc"])

out_dir = os.path.join(here, "..", "corpus", "C04")
os.makedirs(out_dir, exist_ok=True)

def forest(badline):
    t = Tree(); layer(t, "b0", "", IMP); layer(t, "d1", "b0", IMP)
    if badline:
        t.file(VB + "/layers/d1/layerconfig",
               "base b0\n\nimport proc /proc /proc\nimport rbind /dev /dev\n" + badline + "\n")
    return t

cases = [
    case("corpus-child-error-mounted-rename",
         "direct child d1 has a broken layerconfig (error state) and its proc import is mounted: rename of the parent must be refused, nothing changes (fix e3cb7aa)",
         forest("bogus line here"), host([m_proc(31, "d1")]), [step("rename", "b0", "bX"), step("probe")]),
    case("corpus-child-error-mounted-rebase",
         "the same, rebase of the parent onto a new base layer",
         forest("bogus line here"), host([m_proc(31, "d1")]), [step("add", "b9", "", ""), step("rebase", "b0", "b9"), step("probe")]),
    case("corpus-child-error-mounted-umount",
         "umount of the child in the error state unmounts its mounts like any other layer's (it answered 'not mounted' before fix e3cb7aa)",
         forest("bogus line here"), host([m_proc(31, "d1")]), [step("probe"), step("umount", "d1"), step("probe")]),
    case("corpus-child-ok-mounted-rename",
         "control: the child's layerconfig is fine; rename of the parent is refused",
         forest(""), host([m_proc(31, "d1")]), [step("rename", "b0", "bX"), step("probe")]),
]
with open(os.path.join(out_dir, "child-error.jsonl"), "w") as fh:
    for c in cases:
        fh.write(json.dumps(c, sort_keys=True) + "\n")
print("wrote", len(cases), "cases")
