#!/bin/sh
# usage: tools/try_mutant.sh <patch.diff> <property-id> [tier]
# applies the patch to /repo, runs the check, always restores /repo
patch="$1"; prop="$2"; tier="${3:-quick}"
cd /verif || exit 2
git -C /repo apply "$patch" || { echo "PATCH-DOES-NOT-APPLY $patch"; exit 2; }
./check "$prop" --tier "$tier" 2>&1 | grep -v '^KNOWN-FINDING' | tail -3
git -C /repo checkout -- . 
git -C /repo status --short | grep -v '^??' | head -3
