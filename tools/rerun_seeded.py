#!/usr/bin/env python3
"""Re-run the stored seeded changes against the checks as they are now.

usage: tools/rerun_seeded.py [-j N] [--tier quick|thorough] [name-prefix ...]

For each /verif/seeded/<name>/ (patch.diff, meta.json): the patch is applied to a scratch
copy of /repo's HEAD (one per worker, under /var/tmp), `./check <meta.property>` is run with
VERIF_REPO pointing at the copy and evidence redirected, and the outcome (the replay named by
the VIOLATION line, or "missed") is printed as one JSON line.  /repo itself is never modified
and the committed evidence is not touched.  The scratch copies are removed at the end.
"""
import json, os, re, subprocess, sys, shutil, threading, queue

ENV = dict(os.environ, GOFLAGS="-mod=mod", GOPROXY="off", GOSUMDB="off", GOTOOLCHAIN="local")
VERIF = os.path.dirname(os.path.dirname(os.path.abspath(__file__)))


def sh(cmd, cwd, timeout=3000):
    try:
        r = subprocess.run(["sh", "-c", cmd], cwd=cwd, env=ENV, stdout=subprocess.PIPE,
                           stderr=subprocess.STDOUT, timeout=timeout)
        return r.returncode, r.stdout.decode(errors="replace")
    except subprocess.TimeoutExpired:
        return 124, "timeout"


def worker(k, q, tier, lock):
    mrepo = "/var/tmp/rs-repo-%d-%d" % (os.getpid(), k)
    evid = "/var/tmp/rs-evidence-%d-%d" % (os.getpid(), k)
    shutil.rmtree(mrepo, ignore_errors=True)
    subprocess.run(["git", "clone", "-q", "/repo", mrepo], check=True)
    while True:
        try:
            name = q.get_nowait()
        except queue.Empty:
            break
        d = os.path.join(VERIF, "seeded", name)
        meta = json.load(open(os.path.join(d, "meta.json")))
        prop = meta["property"][:3]
        # a change may be one that another property's check is the one to catch (meta.caught_by
        # names it): run the change's own check first, then those
        props = [prop] + [p for p in dict.fromkeys(re.findall(r"C[0-2][0-9]", meta.get("caught_by", ""))) if p != prop]
        res = {"name": name, "property": prop}
        sh("git checkout -q -- . && git clean -fdq", mrepo)
        rc, out = sh("git apply '%s/patch.diff'" % d, mrepo)
        if rc != 0:
            res["result"] = "patch-does-not-apply"
        else:
            res["result"] = "missed"
            for p in props:
                rc, out = sh("VERIF_EVIDENCE_DIR=%s VERIF_REPO=%s ./check %s --tier %s --seed 1 2>&1 | grep -v '^KNOWN-FINDING' | tail -3"
                             % (evid, mrepo, p, tier), VERIF)
                viol = [l for l in out.splitlines() if l.startswith("VIOLATION")]
                if viol:
                    res["result"] = viol[0].split("replay=")[-1].replace(VERIF + "/replays/", "")
                    res["by"] = p
                    break
                res["tail"] = out[-200:]
        with lock:
            print(json.dumps(res), flush=True)
    shutil.rmtree(mrepo, ignore_errors=True)
    shutil.rmtree(evid, ignore_errors=True)


def main():
    args = sys.argv[1:]
    j, tier, prefixes = 4, "quick", []
    while args:
        a = args.pop(0)
        if a == "-j":
            j = int(args.pop(0))
        elif a == "--tier":
            tier = args.pop(0)
        else:
            prefixes.append(a)
    names = sorted(n for n in os.listdir(os.path.join(VERIF, "seeded"))
                   if os.path.isfile(os.path.join(VERIF, "seeded", n, "patch.diff"))
                   and (not prefixes or any(n.startswith(p) for p in prefixes)))
    q = queue.Queue()
    for n in names:
        q.put(n)
    lock = threading.Lock()
    ts = [threading.Thread(target=worker, args=(k, q, tier, lock)) for k in range(j)]
    for t in ts:
        t.start()
    for t in ts:
        t.join()


if __name__ == "__main__":
    main()
