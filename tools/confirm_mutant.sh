#!/bin/sh
# usage: tools/confirm_mutant.sh <seeded-dir> <package-dir-for-demo>
# In a scratch worktree: (1) patch applies, builds, existing tests pass; (2) demo FAILS with
# the patch; (3) demo PASSES without.  Prints CONFIRMED or the step that failed.
d="$1"; pkg="$2"
export GOFLAGS=-mod=mod GOPROXY=off GOSUMDB=off GOTOOLCHAIN=local
wt=/tmp/confirm-wt
git -C /repo worktree remove --force $wt >/dev/null 2>&1
git -C /repo worktree add -q --detach $wt HEAD || exit 2
trap 'git -C /repo worktree remove --force $wt >/dev/null 2>&1' EXIT
cd $wt
git apply "$d/patch.diff" || { echo "NOT-CONFIRMED patch does not apply"; exit 1; }
go build ./... || { echo "NOT-CONFIRMED build fails"; exit 1; }
go test -count=1 ./... >/tmp/confirm-tests.log 2>&1 || { echo "NOT-CONFIRMED existing tests fail with patch"; exit 1; }
cp "$d"/demo*_test.go $pkg/zz_demo_test.go
if timeout 300 go test -count=1 $pkg/ >/tmp/confirm-demo1.log 2>&1; then echo "NOT-CONFIRMED demo passes with patch"; exit 1; fi
git checkout -q -- .
if timeout 300 go test -count=1 $pkg/ >/tmp/confirm-demo2.log 2>&1; then echo "CONFIRMED $d"; else echo "NOT-CONFIRMED demo fails without patch"; tail -5 /tmp/confirm-demo2.log; exit 1; fi
