"""Shared texts for per-property configuration."""

COMMON_TB = [
    "Lean 4.33 kernel (lake build + #print axioms audit; allowed axioms: propext, Classical.choice, Quot.sound)",
    "hand-written Lean model of the Go code, tied to /repo by differential correspondence on every run (harness built from the working tree with -tags verif)",
    "Go standard library (path, strings, strconv, sort, bufio) modelled in Lc/Base and diffed against the real library (suite 'base')",
    "the harness, the lcdriver line protocol and the ./check driver",
]

WORLD_TB = COMMON_TB + [
    "environment models (trusted, validated differentially): kernel mount table Lc/Model/Kernel.lean = the harness's Go simulated kernel (compared after every step through the 'table' observation); file-system tree Lc/Model/Fs.lean = the real file system below a scratch directory (compared through the 'tree' observation)",
    "command model Lc/Model/Layers.lean: package manage statement by statement; compared with the real in-process calls (FindLayers, ProbeAllLayerstate, AddLayer, RemoveLayer, RenameLayer, RebaseLayer, Makedirs, Mount, Unmount, Shake, Chroot, InitLayercakeBase) on result class, syscall list, number of fault points passed, tree, mount table and probed layer states",
    "Std.Do / mvcgen (core Lean) generates the verification conditions of the Hoare-style lemmas; the kernel re-checks the resulting proof terms",
]

WORLD_ASSUME = [
    "no symlinked intermediate directories below the base path; base path is its own canonical spelling in mountinfo",
    "mount propagation (MS_SLAVE|MS_REC) has no structural effect on the table; overlay merged views are not modelled (stat answers come from the real scratch tree)",
    "Go map iteration order is handed to the model where observable (children order in rename)",
]

SCEN_RULE = ("scenarios: random forest (0-5 layers, names incl. Unicode and prefix-related), random layerconfigs from an import/export pool incl. weird entries, "
             "random population of build/overlay/packages/generated directories and user files, foreign export entries, host mount-table variants (stacked /dev/shm, "
             "separate fs, bind-mounted base path); 3-10 command steps (init/add/remove/rename/rebase/mkdirs/mount/umount/umount -all/shake/chroot/probe) with legal, illegal, "
             "missing and very long names and pretend/force/fault:k/crash:k/user switches. distinct = distinct scenario JSON; non-trivial unless the driver marks it trivial.")


def gen_guards(repo, lean, scratch, env):
    """Regenerate lean/Lc/Generated/Guards.lean from the Go source (tools/extract)."""
    import os, shutil, subprocess
    src = os.path.join(os.path.dirname(os.path.dirname(os.path.abspath(__file__))), "tools", "extract")
    work = os.path.join(scratch, "extract")
    if not os.path.isdir(work):
        shutil.copytree(src, work)
    r = subprocess.run(["go", "run", ".", repo], cwd=work, env=env, stdout=subprocess.PIPE, stderr=subprocess.PIPE, text=True)
    if r.returncode != 0:
        return "extractor failed: " + r.stderr[-2000:]
    target = os.path.join(lean, "Lc", "Generated", "Guards.lean")
    old = open(target).read() if os.path.exists(target) else ""
    if old != r.stdout:
        open(target, "w").write(r.stdout)
    return None
