"""Shared texts for per-property configuration."""

COMMON_TB = [
    "Lean 4.33 kernel (lake build + #print axioms audit; allowed axioms: propext, Classical.choice, Quot.sound)",
    "hand-written Lean model of the Go code, tied to /repo by differential correspondence on every run (harness built from the working tree with -tags verif)",
    "Go standard library (path, strings, strconv, sort, bufio) modelled in Lc/Base and diffed against the real library (suite 'base')",
    "the harness, the lcdriver line protocol and the ./check driver",
]

