#!/usr/bin/env python3
"""Regenerates MANIFEST.json from checks/registry.py + checks/manifest_meta.py."""
import json, os, sys
here = os.path.dirname(os.path.abspath(__file__))
sys.path.insert(0, here)
from registry import PROPS, META
from manifest_meta import NOT_APPLICABLE, HOOK_COMMITS

checks = []
for pid in sorted(PROPS):
    m = META[pid]
    checks.append({
        "property_id": pid,
        "quick_cmd": "./check %s --tier quick" % pid,
        "thorough_cmd": "./check %s --tier thorough" % pid,
        "evidence_file": "evidence/%s.json" % pid,
        "replay_cmd_template": "./check %s --replay {path}" % pid,
        "engine": "lean+harness",
        "level_claimed": {"category": "proof", "text": m["text"], "design_ref": m["design_ref"]},
        "level_note": m["note"],
        "technique": m["technique"],
    })
manifest = {
    "version": 1,
    "setup_cmd": "./setup.sh",
    "hooks": {
        "guard": "verif",
        "enable": "go build -tags verif (the checks build harness and binaries from /repo's working tree with the tag on)",
        "baseline_off_cmd": "cd /repo && GOFLAGS=-mod=mod GOPROXY=off GOSUMDB=off GOTOOLCHAIN=local go test -json -vet=off -count=1 -timeout 25m ./...",
        "source_commits": HOOK_COMMITS,
        "add_only": True,
    },
    "engines": [
        {"name": "lean", "path": "lean/", "serves_properties": sorted(PROPS), "kind_free_text": "Lean 4 model (Lc/Model), specifications (Lc/Spec) and property theorems (Lc/Props), core only"},
        {"name": "lcdriver", "path": "lean/Driver.lean", "serves_properties": sorted(PROPS), "kind_free_text": "compiled Lean executable running the model and the property oracles over a JSON line protocol"},
        {"name": "harness", "path": "harness/", "serves_properties": sorted(PROPS), "kind_free_text": "Go program built against /repo with -tags verif; generators, simulated kernel, implementation runner"},
        {"name": "check", "path": "check", "serves_properties": sorted(PROPS), "kind_free_text": "python3 driver: build, proof + axiom audit, correspondence diff, oracle, evidence"},
    ],
    "checks": checks,
    "not_applicable": [{"property_id": k, "reason": v} for k, v in sorted(NOT_APPLICABLE.items()) if k not in PROPS],
    "notes": "All checks decide by Lean 4 theorems over a hand-written model plus a differential correspondence against /repo's working tree; see DESIGN.md.",
}
json.dump(manifest, open(os.path.join(here, "..", "MANIFEST.json"), "w"), indent=1)
print("wrote MANIFEST.json with", len(checks), "checks")
