from common import COMMON_TB

PROP = {
    "suites": ["c13"],
    "lean_modules": ["Lc.Props.C13"],
    "leanchecker": True,
    "trusted_base": COMMON_TB + [
        "Lc/Spec/Pms.lean: my transcription of PMS Algorithms 3.1-3.7, the operator table of PMS 8.3.1 (=v* read as a prefix on version components with the usual boundary rule), slot dependencies 8.3.3 and the USE-dependency table 8.3.4",
        "the generator's structure -> text rendering is checked against Spec.Pms.render on every case (harness_ok)",
    ],
    "assumptions": [
        "fewer than 32768 distinct USE flag names in one process (useFlagIndexType is uint16)",
        "IUSE / USE strings are separated by blanks only (strings.Fields and strings.Split(s, \" \") then coincide)",
        "a USE dependency on a flag the candidate lacks and without (+)/(-) default matches nothing (PMS calls it an error)",
    ],
    "rule": "structured stream: (dependency atom, installed package, parent USE) triples built from the PMS grammar - 1-7 numeric components incl. 5-digit, 99999, 6+-digit, date-like and zero-led ones, letter, 0-3 suffixes with absent/zero/large numbers, revisions, all eight operators, slot / slot+subslot / :* / := / :s= , 0-3 USE dependencies of all six forms x three defaults in both default positions; the candidate is a neighbour of the atom's version in the order 3 times out of 4; one third of the cases may leave Dom5; the whole USE-dependency table (6 forms x 3 defaults x 3 candidate states x 3 parent states x 2 spellings) is enumerated on every run; malformed stream: byte mutations of atom or candidate text (correspondence only); MakeNextVer on comparison strings and adversarial bytes. A case is non-trivial unless the driver marks it trivial (malformed); distinct = distinct case JSON without id.",
}

META = {
    "text": "Lean theorems: on Dom5 (components of 1-5 digits without leading zero, optional letter, at most one suffix with absent or positive number, revision of at most 5 digits; any number of components) the byte order of the comparison strings the code builds equals PMS Algorithm 3.1 (compver_order_partial, induction over the component list), hence < <= = >= > agree there (relops_agree_partial); the version regexp splits the rendered text of every Dom5 version into the groups that theorem is about (compver_of_text_partial); the range comparer of ~v / =v* accepts every extension of its comparison string and ~v agrees with PMS among candidates with v's components, letter and suffix (range_accepts_extensions_partial, tilde_partial); the complete USE-dependency table agrees with PMS except the [!flag?] row (usedep_table_partial, the quantifier is the table); MakeNextVer terminates; negation theorems with concrete witnesses for every violated region (components over 5 digits, leading zeros, ~ matching longer versions, several suffixes, _alpha0, sub-slot, [!flag?]). The Lean model of RawParseAtomAtCursor / makeVersionComparer / FlagsMatch / FilterAtoms is tied to the Go code by differential runs; every implementation decision is judged against the independent Lean PMS specification; wrong decisions inside the recorded regions are reported as known findings.",
    "design_ref": "§4 C13",
    "note": "Trusted: Lean kernel; my transcription of PMS (Lc/Spec/Pms.lean); the correspondence harness. The version-scheme defects are design limitations recorded as findings; two genuine defects were fixed (MakeNextVer hang on an all-nines segment, [flag(+)=] rejected).",
    "technique": "Lean 4 proof (induction over version component lists, decide over the finite USE table) + differential correspondence model vs Go + executable PMS specification as oracle",
}
