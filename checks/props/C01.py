from common import WORLD_TB, WORLD_ASSUME, SCEN_RULE

PROP = {
    "suites": ["scn-directed", "scn-chain", "scn-mount", "scn-mixed"],
    "lean_modules": ["Lc.Props.C01"],
    "leanchecker": True,
    "trusted_base": WORLD_TB,
    "assumptions": WORLD_ASSUME + [
        "the theorems speak about the cached mount table (Layerdefs.mounts) the command holds; that the cache equals the kernel table at the start of the command (ProbeMounts round trip, C12) and that a kernel mount makes the mountpoint visible in the next probe is checked by the oracle on every run, not proved (mount_no_stack / mount_post are not proved)",
        "configurations outside ConfigSane (duplicate, nested, escaping mountpoints) are the recorded finding mount-config-not-sane",
    ],
    "rule": SCEN_RULE + " C01 oracle: every mount/chroot step of the implementation's own syscall list must stay inside the chain's build roots, never target a mounted mountpoint (replayed on the kernel model), be ordered ancestors-first / overlay-first / propagation-after-/dev,/sys,/run, consist only of the chain layers' overlay and configured imports with the prescribed arguments, leave every chain layer completely mounted on success, and issue nothing when a successful mount is repeated.",
}

META = {
    "text": "Lean theorems over the command model for every configuration, Defs, layer name and world, on every exit: the trace of mountOne is [overlay call]? ++ one segment per configured import in configuration order, a segment being [mkdir source]? ++ ([] | mount call + propagation call for /dev,/sys,/run) and non-empty only when the cached table shows no mount on the mountpoint (mountOne_run, by Std.Do/mvcgen over an extensionally equal block form of mountOne); derived: mountOne_targets_unmounted, mount_trace_subset_config (every structural call is the layer's overlay or a configured import at join(build, mountpoint) with type, resolved source and fs.Mount flags), mount_overlay_args (exact lowerdir/upperdir/workdir string), mount_order_overlay_first, mount_order_propagation, mountCmd_trace (mkdirs ++ one mountOne segment per chain layer root-first, each with the Defs the previous returned ++ export links) with mountCmd_targets_unmounted, mount_idempotent_partial, expand_places_under_buildpath, resolve_self, resolve_base. The model is tied to the Go code by differential scenario runs; the oracle judges the implementation's own syscall lists and mount tables.",
    "design_ref": "§4 C01",
    "note": "Not proved: mount_no_stack_partial and mount_post_partial (need the kernel model together with the mountinfo render/parse round trip); mount_idempotent is proved from the cache condition only (partial). Trusted: Lean kernel, environment models (Fs, Kernel), correspondence harness.",
    "technique": "Lean 4 proof (trace grammar via Std.Do/mvcgen loop invariants + list reasoning) + differential correspondence",
}
