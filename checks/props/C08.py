from common import WORLD_TB, WORLD_ASSUME, SCEN_RULE

PROP = {
    "suites": ["scn-directed", "scn-chain", "scn-mount", "scn-mixed", "scn-struct"],
    "lean_modules": ["Lc.Props.C08"],
    "leanchecker": True,
    "trusted_base": WORLD_TB + [
        "documented classification Lc/Spec/World.lean stateOf/allStates, transcribed from doc/layercake_manpage.adoc (status section) and the property text, evaluated by the oracle on the implementation's own post-state (tree + mount table)",
    ],
    "assumptions": WORLD_ASSUME + [
        "the Mounts view handed to findLayerstate is ProbeMounts of the kernel table (Kernel.probe); the bridge between that view and the kernel table is by differential runs, and by explicit per-import hypotheses in state_eq_spec_partial",
        "process assignments (mountBusy / overlain) are taken from the scenario, not from /proc",
    ],
    "rule": SCEN_RULE + " C08 oracle: after every step the state the implementation reports for every layer (FindLayers + ProbeAllLayerstate on the post-state) must equal Spec.World.allStates of the same post-state; the two recorded findings (mount-source-behind-nonroot-mount, derived-imports-without-overlay) are classified only inside their exact regions.",
}

META = {
    "text": "Lean theorems over the model of manage/probe.go and Makedirs, for all configurations, trees, mount tables and layers: mounted_implies_nothing_missing (mounted/mounted-busy is reported only if FHS directories, every import mountpoint and source, every import mount with the expected source, the overlay with the configured lower/upper/work and every export are in place; the a2e90fd clause), incomplete_iff (incomplete iff build root or, derived, work or upper directory missing; the 2d2b96a clause), makedirs_recreates (mkdirs leaves all of them directories), partial_vs_mounted (mountable/partial/mounted iff none/some/all of overlay+imports mounted), state_eq_spec_partial (equality with the documented function Spec.World.stateOf on base layers without exports, for every tree and every subset of imports mounted incl. wrong-source mounts, under explicit bridge hypotheses between the ProbeMounts view and the kernel table), finding_* (the two recorded findings as theorems with concrete witnesses). Fold invariants in closed form (importFold/exportFold), Makedirs by a Hoare triple (mvcgen). Tied to the Go code by differential scenario runs; the oracle compares the implementation's reported states with the documented classification.",
    "design_ref": "§4 C08",
    "note": "Trusted: Lean kernel, environment models (Fs, Kernel), correspondence harness, the transcription of the manual into Spec.World.stateOf. Equality with the documented function is proved only on the region named in state_eq_spec_partial (base layers, no exports, bridge hypotheses between the ProbeMounts view and the kernel table); elsewhere it is checked differentially by the oracle. Two recorded findings (known_findings.txt).",
    "technique": "Lean 4 proof (closed-form fold invariants, case analysis of the classification, Hoare triple via Std.Do/mvcgen for Makedirs) + differential correspondence with oracle against the documented classification",
}
