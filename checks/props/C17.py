from common import COMMON_TB

PROP = {
    "suites": ["c17", "smcli"],
    "lean_modules": ["Lc.Props.C17"],
    "leanchecker": True,
    "trusted_base": COMMON_TB + [
        "Lc/Spec/Chmod.lean: my transcription of chmod(1) MODE grammar and semantics (POSIX + GNU coreutils 9.1 behaviour, umask 0, GNU's keep-setgid-on-directories rule not modelled)",
        "Lc/Spec/AddFiles.lean: my reading of doc/stagemaker_manpage.adoc ADD-FILES FORMAT (type x option table, quoting rules, value formats)",
        "the byte-loop model of parseSource stands for Go's rune loop (all comparisons are against ASCII)",
    ],
    "assumptions": [
        "add-files and recipe lines are shorter than bufio.Scanner's 64 KiB token limit",
        "uid/gid: values below 2^31 must be accepted, 2^32 and above must be refused, in between the manual gives no range; dev minor 256..2^32-1 likewise unspecified (code: 8 bit; widened under C07)",
        "file-level wildcard cases use a scratch tree of regular files and directories and patterns built from '*', backslash escapes and literal bytes",
        "recipe cases run the stagemaker binary with -list system on two minimal build roots",
    ],
    "rule": "structured stream: lines built from the documented grammar (6 types + bogus types x 7 options + unknown keys x 4 quoting styles x octal/symbolic/invalid mod values x in-range/out-of-range ids and device numbers, names with blanks, quotes, backslashes, wildcards, non-UTF-8 bytes), each carrying the generator's intended fields; the whole type x option table in every quoting style; malformed stream: byte mutations (incl. truncation after a backslash) and raw byte strings; value parsers (mod, uid, dev) on grammar and random strings; ReadUserFileList on a scratch tree for wildcard add/omit; stagemaker -recipe runs. A case is distinct by its JSON without id.",
}

META = {
    "text": "Lean theorems over the model of stage/fileList.go (as fixed): parse_total (parseFields/parseLine never panic, for every byte string; the unfixed tokenizer does, witness kept), quote_roundtrip (for every list of non-empty NUL-free fields, each rendered in double quotes, single quotes or with backslash escapes and joined by blanks, parseFields returns exactly the fields; the documented \\* exception as backslash_star_kept), type_table / type_option_table_partial / tbd_row_differs / unknown_option_refused (accept/refuse matrix of parseLine equals the manual's table on all type x option lines by decide, except the tbd row whose deviation is proved and recorded as a finding), mod_sound_octal (full) and mod_sound_grammar_partial (for every comma-separated list of clauses [ugoa]?[+-][rwxst]* the parser accepts the rendering and its and/or masks act on every 12-bit mode as Chmod.apply; the converse over arbitrary accepted strings is checked differentially, with two recorded findings), uid_range / uid_digits / dev_range, parseLine_name_clean / parseLine_accepted_name_clean (for every field list the name parseLine stores is empty — then an error was logged — or a clean absolute path other than /: path.Clean leaves it alone, so no //, no . or .. element, no trailing slash; every accepted line has such a name; fix e57e4a0; C06's parents_precede takes exactly this as its hypothesis on add steps), recipe witnesses. The model is tied to the Go code by differential runs; the implementation's observations are judged against independent Lean specifications of chmod(1) and of the manual. recipe_switch_overrides / recipe_without_switch / recipe_override_keeps_rest: for every recipe text the -root and -profile switches are the settings in force after the recipe step, without a switch the recipe's last line stands, and the override touches nothing else (fix ea50cf4).",
    "design_ref": "§4 C17",
    "note": "Trusted: Lean kernel; Lc/Spec/Chmod.lean and Lc/Spec/AddFiles.lean as transcriptions of chmod(1) and the manual; the correspondence harness. Findings (known_findings.txt): operator-less mod clauses accepted (asserted by the repo's own test), chmod forms =, X, multiple who/ops rejected, tbd accepts undocumented options, escaped asterisk keeps its backslash in non-wildcard names, recipe root/profile override the command line.",
    "technique": "Lean 4 proof (induction over byte strings, decide over the finite table) + differential correspondence model vs Go + spec oracles",
}
