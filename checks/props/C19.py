from common import COMMON_TB

PROP = {
    "suites": ["c19", "scn-directed", "scn-mount", "scn-struct"],
    "lean_modules": ["Lc.Props.C19"],
    "leanchecker": True,
    "trusted_base": COMMON_TB + [
        "Lc/Model/InUse.lean: FindLayerUsers over an explicit description of what /proc answers (each readlink/open/readdir may fail with any errno); which failures the kernel can really produce is an environment assumption",
        "real helper processes (cwd, chroot, executable copied into a layer, open files and directories) scanned by the real fs.FindLayerUsers; the verif hook 'proc-scan' kills a helper exactly between open and readdir of its fd directory",
    ],
    "assumptions": [
        "readlink results of /proc/<pid>/{cwd,root,exe,fd/*} are the canonical absolute paths of the objects (no ' (deleted)' suffixes in the generated cases)",
        "the layers directory is not '/' and is given in its canonical spelling",
        "the clause 'only use of the build, upper or work directory makes the layer un-unmountable' is judged on the command scenarios (suites scn-mount, scn-struct) by the protection oracle shared with C04; its theorems are C04's classify_* and umount_refuses_iff",
    ],
    "rule": "Helpers may also sit in a directory of their own that is deleted and made anew once they are inside (the specification then expects no working-directory use; the recorded finding deleted-directory-attributed classifies the implementation's answer when it equals what the link text '<path> (deleted)' yields). each case spawns 1-4 helper processes whose cwd / root (chroot) / executable / open files and directories lie at generated places: inside layers with prefix-related names (d1, d1x, d1-2, d1~removed), at several depths, in build / overlayfs/upperdir / packages / buildx, in the layers directory itself, or next to it (layersX); 15% of the helpers are killed between open and readdir of /proc/<pid>/fd. The oracle recomputes the expected attribution from the helper description by splitting the path into components (independent of the code's index arithmetic) and requires the scan to succeed. distinct = distinct case JSON.",
}

META = {
    "text": "Lean theorems over the model of fs/inuse.go: link_inside / link_layerdir / link_outside / attribution_exact / no_prefix_confusion (a readlink target is attributed to layer L iff it is <layers>/L or lies below <layers>/L/, with the right tail, for all byte strings; never to a layer whose name only shares a prefix, never for ~removed directories), scan_robust (for every list of processes and every pattern of failing readlink/open/readdir calls the scan returns a result; the unfixed code aborts: old_scan_aborts), vanished_process_only_loses_its_own. Tied to the Go code by scanning real helper processes with the real FindLayerUsers, including helpers killed in the middle of their examination through the verif hook.",
    "design_ref": "§4 C19",
    "note": "Trusted: Lean kernel; the model of what /proc can answer (environment); the harness. Partial by nature: 'whichever processes start or exit' is proved over the explicit failure model, the kernel's real repertoire of errno values is an assumption validated only by the kill-at-hook runs. The chroot/busy marks derived from the uses are C04's classifyUsers lemmas.",
    "technique": "Lean 4 proof (byte-string lemmas, induction over the process list) + differential correspondence with real processes",
}
