from common import COMMON_TB

PROP = {
    "suites": ["c05"],
    "lean_modules": ["Lc.Props.C05"],
    "leanchecker": True,
    "trusted_base": COMMON_TB + [
        "Lc/Spec/Closure.lean: my rendering of 'dependency closure' (PMS ch. 8 group semantics, valid closure between cmin and cmax) and Lc/Model/Profile.lean specSystemSet (PMS 5.2 profile stacking)",
        "the match relation (atom occurrence x installed package) is computed by the real matcher DependAtom.FilterAtoms and handed to model and spec as data: atom matching itself is property C13",
        "dependency strings are printed from generated trees and parsed by the real parser: parsing itself is property C14",
    ],
    "assumptions": [
        "the installed-package database has at most one installed version per (category/name, slot) (true of a real VDB; AtomSet keeps the first one enumerated otherwise)",
        "USE of an installed package is a subset of its IUSE / IUSE_EFFECTIVE",
        "profile directories are not reached through symlinks (readParentFile's symlink branch is not modelled) and the parent graph is acyclic",
        "requested atoms carry a category (the category-guessing branch of ResolveUserDeps is not exercised)",
    ],
    "rule": "resolve stream: random installed-package databases (1-12 packages, 1-5 names, up to 4 slots per name, IUSE/USE, IUSE_EFFECTIVE) with random dependency trees per class (atoms with version/slot/USE-dependency restrictions, all-of, any-of, exactly-one-of, at-most-one-of, USE-conditionals nested to depth 3, weak/strong blockers, atoms naming packages that are not installed, dependency cycles), random @system profile and extra atoms, -nobdeps in a third of the cases; every case is resolved twice by the real code (directory enumeration order, and a generated insertion permutation) and judged by the closure specification; multi-slot stream aimed at candidate order; profile-chain stream (1-4 directories, diamonds, -* lines, repeated atoms, blank parent lines); AtomSet.Add and UserEnteredDependencies Add/Remove sequences. distinct = distinct case JSON without id.",
}

META = {
    "text": "Lean theorems over the model of ResolveUserDeps/findDependencies/Resolver.Resolve/ResolveAtom/ResolveEach/ResolveSomeOf for every database, request and enumeration order: fuel = number of installed packages + 1 always suffices and more fuel never changes the result (termination with arbitrary dependency cycles); every selected package is reachable from the requested atoms through active dependency atoms (soundness); AtomSet.Add keeps every slice strictly sorted and the result is independent of insertion order (after the fix); partial completeness / blocker / unsatisfied-atom theorems and negation witnesses as listed in the module. The model is tied to the Go code by differential runs on generated databases written to disk; the implementation's selection is judged against an independent closure specification.",
    "design_ref": "§4 C05",
    "note": "Trusted: Lean kernel; the closure specification Lc/Spec/Closure (my reading of PMS ch. 8 and of the property statement); the real matcher supplies the match relation (C13) and the real parser reads the generated dependency strings (C14); harness, driver, check. Findings: -* removals in profiles not implemented; an all-of group inside an any-of group counts as satisfied when only part of it is installed; a dead choice group nested in a choice group aborts the run.",
    "technique": "Lean 4 proof (induction over fuel and dependency trees, invariants on the Added/Blocked marks) + differential correspondence model vs Go + closure-specification oracle",
}
