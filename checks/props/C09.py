from common import WORLD_TB, WORLD_ASSUME, SCEN_RULE

PROP = {
    "suites": ["scn-directed", "scn-struct", "scn-mixed"],
    "lean_modules": ["Lc.Props.C09"],
    "leanchecker": True,
    "trusted_base": WORLD_TB,
    "assumptions": WORLD_ASSUME + [
        "rename(2) of a directory is atomic and moves the whole subtree (Fs.rename); RemoveAll removes exactly the entries at or below its argument",
        "the automatic export links (<exportdirs>/<packages|generated>/<name>) are not at or below the layer directory or <name>~removed (stated as an explicit per-path hypothesis in the theorems; the scenarios keep exportdirs outside layerdirs)",
        "filepath.Walk inside holdsOnlyOwnFiles sees exactly the entries of the tree model at or below the layer directory (lstat, no error other than absence)",
    ],
    "rule": SCEN_RULE + " C09 oracle: for every plain (no pretend/fault/crash) remove step, an existing <name>~removed subtree must be byte-identical afterwards; for every successful remove without -files, every non-directory entry at or below the layer directory before the step must exist with the same node (content or link target) at the same path or at the same relative path below <name>~removed, except the two files add itself creates (layerconfig, the base layer's root/.bashrc); every other loss is a violation (the former known finding remove-deletes-unpopulated-layer-with-data is repaired by /repo 5e260eb and no longer classified).",
}

META = {
    "text": "Lean theorems over the file-system model and the command model (the code after fix 5e260eb): rename_preserves / rename_preserves_others (os.Rename of a tree moves every entry at or below the old name to the same relative path below the new name with the same node and touches nothing else; all trees, first-match lookup, no uniqueness assumption); remove_keeps_user_data_partial (remove without -files of a layer in ANY probed state, from any world without the pretend switch, on normal return: every entry at or below the layer directory is found with the same node at the same relative path below <dir>~removed, or the directory was deleted outright and then the probed state was 'not yet populated' and the entry is a directory, the layerconfig or the base layer's root/.bashrc; relational Hoare invariant through removeLayerExportLinks, holdsOnlyOwnFiles and the rename/RemoveAll, VCs by mvcgen); remove_renames_unless_pristine_partial; deleted_only_if_pristine; removed_never_overwritten and removed_subtree_never_overwritten (for every probed state, every pretend/fault/crash setting and every exit, nothing at or below an existing <dir>~removed changes); removed_not_overwritten (unless pristine the command fails and nothing outside the export links changes); remove_files_deletes; fixed_witness (the world on which the unrepaired code lost build/etc/data - base layer probed 'not yet populated' through the model's own probe, exWorld_probed_complete - now keeps the file below ~removed). The model is tied to the Go code by differential scenario runs with random populations of build/upper/packages/generated/other; the oracle judges the implementation's own before/after trees.",
    "design_ref": "§4 C09",
    "note": "The `_partial` suffix of the preservation theorems refers only to the explicit per-path side condition about the two automatic export links (they lie outside the layer directory unless the export directory is configured inside it). Trusted: Lean kernel, the environment model Fs (no symlinked intermediate directories, atomic rename), the correspondence harness. The per-path hypothesis about the automatic export links is explicit in the theorem statements.",
    "technique": "Lean 4 proof (list lemmas for the tree model; relational Hoare invariant via Std.Do/mvcgen over removeLayer) + concrete witnesses by kernel evaluation + differential correspondence",
}
