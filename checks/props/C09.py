from common import WORLD_TB, WORLD_ASSUME, SCEN_RULE

PROP = {
    "suites": ["scn-struct", "scn-mixed"],
    "lean_modules": ["Lc.Props.C09"],
    "leanchecker": True,
    "trusted_base": WORLD_TB,
    "assumptions": WORLD_ASSUME + [
        "rename(2) of a directory is atomic and moves the whole subtree (Fs.rename); RemoveAll removes exactly the entries at or below its argument",
        "the automatic export links (<exportdirs>/<packages|generated>/<name>) are not at or below the layer directory or <name>~removed (stated as an explicit per-path hypothesis in the theorems; the scenarios keep exportdirs outside layerdirs)",
        "remove_preserves_partial is restricted to probed state != 'not yet populated'; the complementary region is the recorded finding remove-deletes-unpopulated-layer-with-data (witness theorem remove_deletes_data_witness)",
    ],
    "rule": SCEN_RULE + " C09 oracle: for every plain (no pretend/fault/crash) remove step, an existing <name>~removed subtree must be byte-identical afterwards; for every successful remove without -files, every non-directory entry at or below the layer directory before the step must exist with the same node (content or link target) at the same path or at the same relative path below <name>~removed, unless the directory held nothing beyond what add created; a loss in a layer whose probed state is 'not yet populated' is classified as the known finding, every other loss is a violation.",
}

META = {
    "text": "Lean theorems over the file-system model and the command model: rename_preserves / rename_preserves_others (os.Rename of a tree moves every entry at or below the old name to the same relative path below the new name with the same node and touches nothing else; all trees, first-match lookup, no uniqueness assumption); remove_preserves_partial (remove without -files of a layer whose probed state is not 'not yet populated', from any world without the pretend switch, on normal return: every path at or below the layer directory has exactly the same lookup below <dir>~removed; proved by a relational Hoare invariant through removeLayerExportLinks and the rename, VCs by mvcgen); removed_not_overwritten (an existing <dir>~removed makes the command fail and nothing outside the two automatic export links changes, for every pretend/fault/crash setting); pristine_deleted (in state 'not yet populated' the directory is deleted outright) and its consequence remove_deletes_data_witness (+ _probed, through the model's own probe): a base layer with build/etc/data but without the seven FHS directories loses the file and no ~removed exists - the property as stated is violated in that region (recorded finding). The model is tied to the Go code by differential scenario runs with random populations of build/upper/packages/generated/other; the oracle judges the implementation's own before/after trees.",
    "design_ref": "§4 C09",
    "note": "Partial: the preservation theorem needs state != 'not yet populated'; for that state the negation is proved on a concrete witness and reproduced with the real code (finding remove-deletes-unpopulated-layer-with-data). Trusted: Lean kernel, the environment model Fs (no symlinked intermediate directories, atomic rename), the correspondence harness. The per-path hypothesis about the automatic export links is explicit in the theorem statements.",
    "technique": "Lean 4 proof (list lemmas for the tree model; relational Hoare invariant via Std.Do/mvcgen over removeLayer) + concrete counter-witness by kernel evaluation + differential correspondence",
}
