from common import WORLD_TB, WORLD_ASSUME, SCEN_RULE

PROP = {
    "suites": ["scn-struct", "scn-mixed", "bin"],
    "lean_modules": ["Lc.Props.C02"],
    "leanchecker": True,
    "trusted_base": WORLD_TB,
    "assumptions": WORLD_ASSUME + [
        "the layer table handed to a command (Defs) is what FindLayers + ProbeAllLayerstate produced from the disk; unicode.IsLetter/IsDigit are the generated tables in Lc/Generated/UnicodeTables.lean",
        "\"returns in bounded time\" is covered for normalizeOrder and checkInheritance by the fuel theorems; the other loops of the commands range over finite lists",
    ],
    "rule": SCEN_RULE + " C02 oracle: after every step the implementation's re-read forest must have unique legal names, existing parents and no cycle; a step rejected for one of the property's reasons (duplicate/illegal/empty name, missing parent, self or descendant rebase, remove with children) must fail and leave the tree identical; every step must return (no hang, no panic).",
}

META = {
    "text": "Lean theorems over the command model of package manage, for every configuration, layer table, argument and world: each rejection reason of the property makes the command return an error with file system, mount table, trace and fault counter untouched (add_rejects_name, add_rejects_parent, rename_rejects_source, rename_rejects_newname, rebase_rejects_missing, rebase_rejects_parent, rebase_rejects_self, rebase_rejects_descendant at any depth via self_base_is_cycle / descendant_base_is_cycle, remove_rejects_missing, remove_rejects_parent); a table accepted by checkInheritance never exhausts normalizeOrder's key walk nor dereferences a missing base (normalize_fuel, keys_defined); the normalized order is a permutation of the names in which every ancestor precedes its descendants (order_perm, order_nodup, ancestor_precedes, parent_precedes, by the prefix order of the keys and sortedness of insertion sort); FindLayers never panics and only reads (list_total). The model is tied to the Go code by differential scenario runs with random command sequences; the oracle judges the implementation's re-read forest.",
    "design_ref": "§4 C02",
    "note": "Trusted: Lean kernel, environment models (Fs, Kernel), correspondence harness. Not proved as one theorem: preservation of the forest invariant by the successful paths of add/rename/rebase/remove (step_preserves_WF) and the rename/rebase content specifications; these are checked on every step by the oracle. Table rendering (AdaptiveTable) is outside the command model.",
    "technique": "Lean 4 proof (evaluation of the guards; induction over the base-chain walks; insertion-sort sortedness) + differential correspondence",
}
