from common import WORLD_TB, WORLD_ASSUME, SCEN_RULE

PROP = {
    "suites": ["scn-crash", "scn-crashx", "scn-faultx", "scn-struct", "c11"],
    "lean_modules": ["Lc.Props.C11"],
    "leanchecker": True,
    "trusted_base": WORLD_TB + [
        "Lc/Model/Layerfile.lean: hand-written model of ReadLayerFile / WriteLayerfile (tied to the Go code by suite c11: the real ReadLayerFile -> WriteLayerfile -> ReadLayerFile on generated and mutated texts, observation compared with the model's)",
        "Lc/Base/Utf8.lean: transcription of Go's rune decoding, unicode.IsSpace, strings.Fields, strings.TrimSpace (diffed against the standard library by suite base)",
    ],
    "assumptions": WORLD_ASSUME + [
        "layerconfig lines are shorter than bufio.Scanner's 64 KiB token limit",
        "rename(2) replaces the target atomically (the model's Fs.rename is one step); a crash is a stop between two file-system operations of the process, not a power loss with reordered writes",
        "layer names are white-space-free tokens (isLegalLayerName admits letters, digits, '_' and '-')",
    ],
    "rule": SCEN_RULE + " C11 oracle (scenarios): after a step interrupted at a crash index every layerconfig on disk equals its previous or its new complete content and no layer directory has lost its layerconfig; after an undisturbed successful add/rename/rebase every layerconfig that loaded cleanly before still loads cleanly with the same imports and exports in the same order and the same parent apart from the intended change (judged with the proved reader on the implementation's bytes), and the file add writes carries the parent's imports/exports and the requested parent. scn-crashx includes a rebase onto a long-named parent interrupted at every index followed by a shorter rewrite. Suite c11: structured stream = layerconfig texts built from a grammar (base/import/export lines in any number and order, blanks/tabs/Unicode blanks as separators, CRLF, comments, blank lines, extra fields, unusual mount types, paths with .., //, trailing slashes, $$self/$$base prefixes, non-ASCII and invalid UTF-8, lines that must produce a message); malformed stream = byte mutations/truncations of such texts. Oracle: if the implementation's first read logged no message, its second read (of what WriteLayerfile wrote) has the same base, imports and exports in the same order and no message. A case is trivial when the text defines no base, import or export.",
}

META = {
    "text": "Lean theorems: read_write_read (for EVERY byte string - any line structure, any spacing, valid or invalid UTF-8 - that ReadLayerFile loads without message, writing it out and reading it back gives the same base, imports and exports in the same order; proved by induction over the line list with lemmas that strings.Fields tokens stay single tokens when re-joined with blanks, that path.Clean is idempotent and never introduces white space, and that rune decoding is local); rewrite_changes_only_base (what rename/rebase/add write differs from what was loaded only in the base name); crash_atomic (WriteLayerfile under every world and every crash/fault index: at every exit but the normal one every path except <layerconfig>.new holds what it held before, at the normal exit the layerconfig holds exactly the complete new text; Hoare triple via Std.Do/mvcgen), lifted to rebase (crash_atomic_rebase). The model is tied to the Go code by scenario runs with a crash injected at every operation index and by the c11 suite running the real reader and writer.",
    "design_ref": "§4 C11",
    "note": "Trusted: Lean kernel, environment model Fs (atomic rename), the correspondence harness. crash_atomic is lifted to whole commands for rebase only; for add and rename (which also create/move directories) the command-level statement rests on the scenario oracle at every crash index plus crash_atomic for each WriteLayerfile call inside them.",
    "technique": "Lean 4 proof (induction over lines and runes; Hoare-style invariant via Std.Do/mvcgen over the command model) + differential correspondence + crash injection at every operation index",
}
