from common import WORLD_TB, WORLD_ASSUME, SCEN_RULE

PROP = {
    "suites": ["scn-directed", "scn-chain", "scn-mixed", "scn-mount", "scn-struct", "binman"],
    "lean_modules": ["Lc.Props.C04"],
    "leanchecker": True,
    "trusted_base": WORLD_TB,
    "assumptions": WORLD_ASSUME + [
        "process attribution (fs.FindLayerUsers over /proc) is handed to the commands as the synthetic InUseLayerMap of the scenario; its own correctness is C19",
        "the end-to-end theorems (*_end_to_end_partial) assume that FindLayers succeeds on the world, that the layer is in the table it returns and that the mount table parses; the child-busy case is proved over an arbitrary probed table (Defs), its composition through the probe loop is carried by the differential runs and the oracle",
    ],
    "rule": SCEN_RULE + " C04 oracle: a remove/rename/rebase step whose target (or, for rename/rebase, a direct child) has a mount at or below its build root, a user or a mounted overlay on top in the implementation's own before-observation must fail and leave tree and mount table identical; umount must refuse exactly when a user sits in build/upper/work or the layer is overlain.",
}

META = {
    "text": "Lean theorems over the command model of package manage, for every configuration, layer table, name and world: remove/rename/rebase return an error and leave file system, mount table, syscall trace and fault-point counter untouched when the target layer is busy (mount at/below build root, MountBusy, NonMountBusy, Overlain) or in error state (remove_refuses, rename_refuses, rebase_refuses + _error variants), and rename/rebase likewise when a direct child is busy, for every child visiting order (rename_child_refuses, rebase_child_refuses); umount answers busy, changing nothing, iff MountBusy or Overlain (umount_refuses, umount_refuses_iff, umountCmd_refuses) and with only NonMountBusy set its first action is the unmount of the deepest mount (umount_nonMountBusy_proceeds). Link to the probe per layer: classify_any_user_busy, classify_mountBusy_iff, classify_rest, mounts_listed(_mem), refresh_sets_overlain, overlain_iff. Composed end to end through FindLayers and ProbeAllLayerstate's loop (loop invariant per layer name, findLayerstate touches only mounts and state): remove/rename/rebase_end_to_end_partial — a world with a mount at/below the layer's build root, a process attributed to it or a mounted overlay on it makes the whole CLI step fail and return the very same world. The model is tied to the Go code by differential scenario runs with synthetic in-use maps; the oracle judges the implementation's own observations.",
    "design_ref": "§4 C04",
    "note": "Trusted: Lean kernel, environment models (Fs, Kernel), correspondence harness. The flags are the ones ProbeAllLayerstate computes after the fix that classifies users and mounts before the early exits for incomplete layers (see known_findings.txt); layers in error state at load are skipped by the probe and protected by the error-state guard instead.",
    "technique": "Lean 4 proof (evaluation of the guards on the command model; Hoare-style triples via Std.Do/mvcgen for umount) + differential correspondence",
}
