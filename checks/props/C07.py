from common import COMMON_TB

PROP = {
    "suites": ["c07", "smcli"],
    "lean_modules": ["Lc.Props.C07"],
    "leanchecker": True,
    "trusted_base": COMMON_TB + [
        "Lc/Spec/Stage.lean: 'header field = source field' per member kind with the add-files overrides; Linux dev_t layout (major bits 8-19 and 44-63, minor bits 0-7 and 20-43)",
        "lstat/readlink/llistxattr/lgetxattr as called by the harness are the ground truth for the source objects",
        "Go's archive/tar PAX encoding (writer in stagemaker, reader in the harness); GNU tar for the extraction comparison; gzip/bzip2/xz",
    ],
    "assumptions": [
        "the PAX byte encoding of headers and the bytes of regular files are archive/tar's and fs.ReadFile's: validated differentially (content digests, extraction with GNU tar), not modelled",
        "output compressed with gzip, bzip2 or xz decompresses to the same archive: external programs, validated differentially only (thorough tier)",
        "files do not change while the tarball is written",
    ],
    "rule": "as C06 plus device nodes with majors up to 4095 and minors up to 2^20-1, 255..4000-byte link targets, setuid/setgid/sticky modes, uids up to 3000000, time stamps beyond 2^31 and 2^33, xattrs (user/trusted/security, values > 1024 bytes, name lists > 256 bytes, symlink to a file with xattrs), add-files overrides mod=/uid=/gid=/dev=/targ=/src=; thorough: extraction with GNU tar -xp --xattrs --numeric-owner and lstat comparison, gzip/bzip2/xz round trip",
}

META = {
    "text": "Lean theorems over the model of addSingleFile and of MakeTar's header mapping against an independent specification (Spec.Stage.expected): fidelity_common (permission bits, uid, gid, mtime and xattrs of every header equal the source's unless overridden, for all lstat records and all option combinations), fidelity_kind_partial (member type, size, link target, device type and major/minor; hypotheses: dev= only on node lines, targ= only on symlink lines, a 'file ... src=' line names a regular file, rdev < 2^64), devnum_decode_encode / devnum_encode_decode / devMajorMinor_linux / devMajorMinor_bits (the decoding is the Linux dev_t layout for every 64-bit value and the shift/mask form of the Go source equals the arithmetic form; omega and core Nat lemmas only), override_spec, synth_defaults; tied to the real stagemaker binary by differential runs on generated build roots; the archive read back with archive/tar is judged member by member against the lstat data of the source. The gzip/bzip2/xz clause and the PAX byte encoding are assumptions validated differentially only.",
    "design_ref": "§4 C07",
    "note": "Assumptions validated differentially only: PAX byte encoding and file bytes (archive/tar, fs.ReadFile), gzip/bzip2/xz round trip, GNU tar extraction. Known finding dir-mtime-noncontiguous concerns extraction with plain GNU tar -xp.",
    "technique": "Lean 4 proof (case analysis, omega for the dev_t arithmetic) + differential correspondence model vs real binary + extraction with GNU tar",
}
