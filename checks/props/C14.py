from common import COMMON_TB

PROP = {
    "suites": ["c14"],
    "lean_modules": ["Lc.Props.C14"],
    "leanchecker": True,
    "trusted_base": COMMON_TB + [
        "Lc/Spec/DepGrammar.lean: my transcription of the PMS grammar of atoms and dependency strings (abstract syntax, printers, expected decomposition) and the structural reader used to judge arbitrary strings",
        "the two Go regular expressions of portage/atom/parse.go are modelled by hand-written deterministic scanners (validated differentially, including mutated atoms)",
    ],
    "assumptions": [
        "bytes <= 0x20 separate tokens of a dependency string (the code's notion of whitespace)",
        "fewer than 32768 distinct USE-flag names per process (the implementation interns flag names in a 16-bit table)",
        "construction of error-message texts is not modelled (error class only); a panic there would show in the differential run",
    ],
    "rule": "structured stream: dependency trees of the PMS grammar (all-of, any-of, exactly-one-of, at-most-one-of, USE conditionals negated or not, nesting depth 0-5 and deep chains up to 38, empty groups; atoms with blockers, operators, versions with letters/suffixes/revisions, globs, slots/subslots/slot operators, repositories, USE dependencies with defaults; names with digits and hyphens) printed with random whitespace, the tree travelling with the case; malformed stream: byte mutations, dropped/added parentheses, glued tokens, dangling '?' and '||' without group, junk-token sequences; atoms: grammar-built in the four parser contexts plus mutated atoms; tokenizer cases. A case is non-trivial unless the driver marks it trivial; distinct = distinct case JSON without id.",
}

META = {
    "text": "Lean theorems over a hand-written model of getToken/decodeDependency/RawParseAtomAtCursor (cursor methods, both regular expressions as deterministic scanners, USE-dependency parser), following the code after seven fix commits: dep_roundtrip / dep_roundtrip_print (full, by mutual structural induction: decoding ANY whitespace layout of the token sequence of ANY dependency tree - all group kinds, USE conditionals, empty groups, arbitrary nesting - returns exactly that tree, relative to the hypothesis AtomOK that the atom parser reads each atom of the tree and stops at its end); decode_total and atom_parse_total (full: no panic outcome for any byte string); decode_rejects_stray_close / decode_rejects_missing_close (full for well-formed trees followed by a stray ')' or an unclosed group); version_split_partial (name/version boundary, with a decidable side condition per name). NOT proved: decode_terminates for arbitrary input (the fuel 2*len+2 is shown sufficient only on the inputs covered by the theorems above) and atom_roundtrip (AtomOK for every atom of the grammar); both are covered differentially only. The model is tied to the Go code by differential runs on grammar-generated and mutated inputs; the implementation's observation is judged against the independent grammar specification (exact tree and atom decomposition for generated cases; no panic/hang, structural reading and print/re-parse stability for arbitrary strings).",
    "design_ref": "§4 C14",
    "note": "Trusted: Lean kernel; my transcription of the PMS grammar (Lc/Spec/DepGrammar); hand-written scanners standing for the two Go regular expressions; the correspondence harness. atom.MakeNextVer / makeDA (version comparers built while decoding) are not in the model; their termination is checked by a watchdog in the harness.",
    "technique": "Lean 4 proof (mutual structural induction over dependency trees, explicit fuel arithmetic) + differential correspondence model vs Go",
}
