from common import WORLD_TB, WORLD_ASSUME, SCEN_RULE

PROP = {
    "suites": ["scn-fault", "scn-mixed"],
    "lean_modules": ["Lc.Props.C10"],
    "leanchecker": True,
    "trusted_base": WORLD_TB + [
        "fault injection through the verif hook fs.verifPoint (one fault point per fs.Mkdir/WriteTextFile/Symlink/Rename/Remove/Mount/Unmount and per open/write of TextOutputFileCursor)",
    ],
    "assumptions": WORLD_ASSUME + [
        "an operation fails only as a whole (no partial write within one write(2))",
        "stagemaker half of C10 (write errors at byte offset k) is covered by suite c10-stage when enabled; see level_note",
    ],
    "rule": SCEN_RULE + " C10 oracle: in every step with fault:k, if the implementation passed at least k fault points (the k-th operation failed) its result class must not be ok.",
}

META = {
    "text": "Lean theorems success_means_fault_not_reached / fault_reached_means_failure: for every command, state and every k, if the k-th mutating operation fails the command model does not return success (invariant 'fault not yet fired' preserved by every function of the model on normal return; the cursor's deferred error flag is part of the invariant). Tied to the Go code by fault injection at the same hook points in differential scenario runs; the oracle judges the implementation's own result class against the number of fault points it passed.",
    "design_ref": "§4 C10",
    "note": "Trusted: Lean kernel, environment models, harness, the verif fault hook. layercake half only is proved; the stagemaker clause (write error at any byte offset) is checked differentially (see DESIGN.md §4 C10) and not by a theorem.",
    "technique": "Lean 4 proof (Hoare-style invariant over the command model, all fault positions) + fault-injection correspondence",
}
