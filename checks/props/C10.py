from common import WORLD_TB, WORLD_ASSUME, SCEN_RULE, gen_guards

PROP = {
    "suites": ["scn-directed", "scn-fault", "scn-faultx", "scn-mixed", "c10-stage"],
    "lean_modules": ["Lc.Props.C10", "Lc.Props.C10Stage", "Lc.Props.C10Facts"],
    "generate": [gen_guards],
    "leanchecker": True,
    "trusted_base": WORLD_TB + ["tools/extract (go/ast): regenerates Lc/Generated/Guards.lean (mutator call sites and their WriteOK guards, command functions and getArgs, dropped errors) from the source on every run; default deny for what it does not understand"] + [
        "fault injection through the verif hook fs.verifPoint (one fault point per fs.Mkdir/WriteTextFile/Symlink/Rename/Remove/Unmount, per kernel call of fs.Mount (the mount, and the propagation change after an rbind of /dev, /sys, /run: theorems propagation_failure_reported, fsMount_passes_fault_points) and per open/write of TextOutputFileCursor)",
    ],
    "assumptions": WORLD_ASSUME + [
        "an operation fails only as a whole (no partial write within one write(2))",
        "stagemaker half: the output limit is imposed with a file-size limit in 512-byte blocks (ulimit -f: 0, 1, 2, 3, 5, 8, ... and the exact boundary blocks-1 / blocks) and with /dev/full; offsets inside a block are not sampled; the model abstracts the output as a sequence of writes (any sequence: theorem emit_ok_iff)",
    ],
    "rule": SCEN_RULE + " scn-faultx: for a scenario step, EVERY fault position k from 1 to the number of fault points the undisturbed step passes (+1). c10-stage: real stagemaker -generate (uncompressed and through gzip) and -list runs on generated build roots with a limited output. C10 oracle: in every step with fault:k, if the implementation passed at least k fault points (the k-th operation failed) its result class must not be ok; a stagemaker run that exits 0 must have produced the complete output.",
}

META = {
    "text": "Lean theorems success_means_fault_not_reached / fault_reached_means_failure: for every command, state and every k, if the k-th mutating operation fails the command model does not return success (invariant 'fault not yet fired' preserved by every function of the model on normal return; the cursor's deferred error flag is part of the invariant). Tied to the Go code by fault injection at the same hook points in differential scenario runs; the oracle judges the implementation's own result class against the number of fault points it passed.",
    "design_ref": "§4 C10",
    "note": "Trusted: Lean kernel, environment models, harness, the verif fault hook. stagemaker half: theorems emit_ok_iff / emit_ok_complete / short_output_fails over an abstract sequence of writes (Lc/Model/OutFault.lean), tied to the real binary by limited-output runs; archive/tar and the compressors are not modelled.",
    "technique": "Lean 4 proof (Hoare-style invariant over the command model, all fault positions) + fault-injection correspondence",
}
