from common import COMMON_TB

PROP = {
    "suites": ["c06", "smcli"],
    "lean_modules": ["Lc.Props.C06", "Lc.Lemmas.Prefix"],
    "leanchecker": True,
    "trusted_base": COMMON_TB + [
        "Lc/Spec/Stage.lean: my rendering of the property text as set algebra over the generator's description of the build root (expectedNames) and of the order predicates",
        "the harness's expansion of list lines (globbing with Go's filepath.Glob, the do-not-traverse walk) into primitive steps; tied to the code only through the final member sequence",
        "Go's archive/tar (writer in stagemaker, reader in the harness)",
    ],
    "assumptions": [
        "member names are clean absolute paths without newline; no package records a path through a symlinked directory",
        "omit lines name no directory that still has members (the property would then ask both for removal and for parent closure)",
        "no selected package records an absent path that the built-in lists synthesise",
        "lstat errors other than ENOENT do not occur on the build root",
    ],
    "rule": "directed roots (one per known defect region) then random build roots: Appendix-D skeleton, 2-5 packages with files/dirs/symlinks/hard-link groups/absent entries/odd names, names shared with or recorded only for unselected packages, unrecorded symlink chains, objects entering through the recursive built-in globs, add-files scripts (add, src=, wildcard add, omit, wildcard omit, synthesised dirs and nodes), -novdb/-emptydev; a case is non-trivial when the tarball was generated (cls ok)",
}

META = {
    "text": "Lean theorems over the model of the member-set pipeline: pipeline_invariant (names stay pairwise different, only regular files carry an inode identity), sorted_strict / members_unique / finalize_same_names (Finalize yields a strictly byte-sorted list with the same names), prefix_lt and parent_before_child (a path sorts strictly before everything it is a proper prefix of, all byte strings), parents_precede_partial and root_precedes (every member is preceded by all its parent directories; parent-closedness is a hypothesis), addMissing_parent_closed_partial (AddMissingStageDirs closes the set under parents; hypothesis: names are clean) with addChain_fuel, hardlink_earlier_same_inode (invariant of the fixHardlinks scan), omit_removes / omit_wildcard_removes / exclude_removes, members_dot_relative; the model is tied to the real stagemaker binary by differential runs on generated build roots, and the archive read back with archive/tar is judged against an independent set-level specification (Spec.Stage.expectedNames) and the order predicates.",
    "design_ref": "§4 C06",
    "note": "Trusted: Lean kernel; Lc/Spec/Stage.lean (expected member set, order predicates); the harness's expansion of list lines into steps (globbing, symlink walk) which is validated only through the final comparison; archive/tar. Line parsing is C17's subject and is not modelled here.",
    "technique": "Lean 4 proof (induction over lists / byte strings) + differential correspondence model vs real binary on generated build roots",
}
