from common import COMMON_TB

PROP = {
    "suites": ["c06", "smcli"],
    "lean_modules": ["Lc.Props.C06", "Lc.Lemmas.Prefix", "Lc.Lemmas.StageClosed"],
    "leanchecker": True,
    "trusted_base": COMMON_TB + [
        "Lc/Spec/Stage.lean: my rendering of the property text as set algebra over the generator's description of the build root (expectedNames) and of the order predicates",
        "the harness's expansion of list lines (globbing with Go's filepath.Glob, the do-not-traverse walk) into primitive steps; tied to the code only through the final member sequence",
        "Go's archive/tar (writer in stagemaker, reader in the harness)",
    ],
    "assumptions": [
        "member names contain no newline; no package records a path through a symlinked directory; the names the steps bring in are clean absolute paths (StepClean, the one hypothesis of parents_precede): proved for the names of add-files lines (C17 parseLine_name_clean, fix e57e4a0), assumed for the names recorded in the package database and for those the harness obtains from Go's filepath.Glob / the symlink walk on a build root other than /",
        "omit lines name no directory that still has members (the set-level specification would then ask both for removal and for parent closure; the order theorem parents_precede needs no such assumption: the closing AddMissingStageDirs brings the directory back)",
        "no selected package records an absent path that the built-in lists synthesise",
        "lstat errors other than ENOENT do not occur on the build root",
    ],
    "rule": "directed roots (one per known defect region) then random build roots: Appendix-D skeleton, 2-5 packages with files/dirs/symlinks/hard-link groups/absent entries/odd names, names shared with or recorded only for unselected packages, unrecorded symlink chains, objects entering through the recursive built-in globs, add-files scripts (add, src=, wildcard add, omit, wildcard omit, synthesised dirs and nodes), -novdb/-emptydev; a case is non-trivial when the tarball was generated (cls ok)",
}

META = {
    "text": "Lean theorems over the model of the member-set pipeline: pipeline_invariant (names stay pairwise different, only regular files carry an inode identity), sorted_strict / members_unique / finalize_same_names (Finalize yields a strictly byte-sorted list with the same names), prefix_lt and parent_before_child (a path sorts strictly before everything it is a proper prefix of, all byte strings), parents_precede (FULL, the sentence of the property: for every environment and every step list whose own names are clean absolute paths and which ends, as getStageFileList does, with AddMissingStageDirs; Finalize — if the run succeeds, every member of fl.Files is preceded by each of its ancestor directories, whatever was deleted before; no hypothesis on the map) with archive_parents_precede (the same for the header sequence MakeTar writes: every name is ./..., the ancestor's member stands earlier) and stageFileList_names_clean, resting on pathDir_of_clean (on a clean absolute name path.Dir is the cut at the last slash and is clean again), pipeline_names_clean (every step keeps all member names clean absolute paths when its own names are: invariant NamesClean through runStep by cases, runSteps by induction; helper lemmas in Lemmas/StageClosed, audited too), addMissing_parent_closed (FULL: from clean names AddMissingStageDirs yields a superset with clean names that is closed under parents) and addMissing_adds_only_ancestors (it adds nothing but ancestors of members and, when a member lies directly below it, the root); the older parents_precede_partial (parent-closedness as hypothesis, any map) / root_precedes / addMissing_parent_closed_partial (hypothesis: path.Dir agrees with the cut on the names present) are kept, with addChain_fuel, hardlink_earlier_same_inode (invariant of the fixHardlinks scan), omit_removes / omit_wildcard_removes / exclude_removes, members_dot_relative; the model is tied to the real stagemaker binary by differential runs on generated build roots, and the archive read back with archive/tar is judged against an independent set-level specification (Spec.Stage.expectedNames) and the order predicates.",
    "design_ref": "§4 C06",
    "note": "Trusted: Lean kernel; Lc/Spec/Stage.lean (expected member set, order predicates); the harness's expansion of list lines into steps (globbing, symlink walk) which is validated only through the final comparison; archive/tar. Line parsing is C17's subject and is not modelled here; what C06 uses of it is C17's parseLine_name_clean (stored names are clean absolute paths).",
    "technique": "Lean 4 proof (induction over lists / byte strings) + differential correspondence model vs real binary on generated build roots",
}
