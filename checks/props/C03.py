from common import WORLD_TB, WORLD_ASSUME, SCEN_RULE

PROP = {
    "suites": ["scn-directed", "scn-chain", "scn-mount", "scn-mixed", "bin"],
    "lean_modules": ["Lc.Props.C03"],
    "leanchecker": True,
    "trusted_base": WORLD_TB,
    "assumptions": WORLD_ASSUME + [
        "umount_all_children_first assumes that in normalizedOrder every layer's base precedes it (ancestor_precedes, Props/C02)",
        "the theorems speak about Layerinfo.Mounts as filled by GetMountAndSubmounts from the cached table; that this list covers every kernel mount at/below the build root (no foreign child appearing between probe and unmount) and that the kernel then ends with nothing mounted there is checked by the oracle on every run, not proved (umount_post is not proved)",
    ],
    "rule": SCEN_RULE + " C03 oracle: every umount step: argument errors change nothing and fail; only unmount calls, each inside the build root of an addressed layer, each hitting a current mountpoint with nothing beneath it (replayed on the kernel model), derived layers before the layers they sit on; on success nothing remains mounted at or below the build roots; with -all idle layers are unmounted although busy ones are reported.",
}

META = {
    "text": "Lean theorems over the command model for every configuration, Defs, layer name and world, on every exit: unmountLayer issues nothing with the pretend switch and otherwise exactly the unmount calls of l.mounts in reverse order, an error exit an initial part of them (unmountLayer_run, Std.Do/mvcgen); umount_targets_inside (only unmount calls, each target the named layer's build path or below it and a mountpoint of the probed table, by mem/permutation lemmas for the insertion sort), umount_leaf_order (GetMountAndSubmounts sorts non-strictly by mountpoint, so in issue order no later target lies beneath an earlier one: prefix_lt), umount_noargs_fails and umount_both_fails (error, world unchanged, by computation), unmountLayer_busy_noop, unmountLayer_status, umount_all_children_first (the -all loop is one segment per layer over reversed normalizedOrder; under parents-first order a derived layer precedes its base), umount_all_skips_busy (success iff every layer was idle at its turn; 'busylayers' iff the loop completed and some layer was busy). The model is tied to the Go code by differential scenario runs; the oracle judges the implementation's own syscall lists and mount tables.",
    "design_ref": "§4 C03",
    "note": "Not proved: umount_post_partial (kernel table empty at/below the build root after success; needs the kernel model and the probe round trip). Trusted: Lean kernel, environment models (Fs, Kernel), correspondence harness.",
    "technique": "Lean 4 proof (Std.Do/mvcgen loop invariants, sortedness of insertion sort, prefix order) + differential correspondence",
}
