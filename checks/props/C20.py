from common import COMMON_TB

PROP = {
    "suites": ["c20"],
    "lean_modules": ["Lc.Props.C20"],
    "leanchecker": True,
    "trusted_base": COMMON_TB + [
        "Lc/Model/Concurrent.lean: abstract interleaving model (actions separated by kernel interactions; a schedule picks the process whose next interaction happens)",
        "harness/c20.go: two real command instances (FindLayers + ProbeAllLayerstate + Mount/Unmount/Chroot; the chroot program is /bin/true) on one simulated kernel; each goroutine blocks inside the injected mountinfo reader / mount / umount functions and is released in schedule order, only one runs at a time",
    ],
    "assumptions": [
        "the kernel interactions (one read of /proc/self/mountinfo, one mount(2), one umount(2)) are atomic; interleavings inside them are not considered",
        "scenarios: one base layer with 1-3 bind imports (flat or nested mountpoints), and chains b0 <- d0 (<- d1) with 1-2 imports per layer, some layers mounted beforehand; and forests of two families a <- a2, b <- c; commands mount, umount, chroot and umount -all (its visiting order is taken from the implementation; shake is not interleaved)",
    ],
    "rule": "all 64 schedules of length 6 for mount/mount on one target (exhaustive), plus random cases: 1-3 targets, mount|umount x mount|umount, layer pre-mounted or not, random schedules of 2-13 turns; chains of 2-3 layers with mount (50%) / chroot (25%) / umount (25%) of any layer of the chain, random schedules or one process running entirely between two kernel interactions of the other, one or two later umounts; chroot reading the table at each of 8 cut points of the other process's mount of the same derived layer; forests: umount -all against mount a2 / chroot c with the other process running entirely at each of 10 cut points, and random forest cases (umount -all against mount|chroot|umount of any layer, random pre-mounted subset, optional later umount -all); the rest of each process runs to completion after the schedule. The oracle asks whether the implementation's final mount table equals the result of one of the two serial orders (computed by the model). distinct = distinct case JSON.",
}

META = {
    "text": "The property does not hold for the code (no lock between check and mount): the negation is proved with concrete schedules (c20_counterexample: probe0 probe1 mount0 mount1 stacks two mounts on one mountpoint; c20_counterexample_mount_umount), replayed against the real code on every run and recorded as a known finding. What holds for every schedule is proved: turn_effect (one turn leaves the table alone, adds exactly one mount whose target the process's own cache did not show, removes exactly one mount, or gives up — stacking needs a stale cache), probe_is_snapshot, ensure_skips_cached, fresh_cache_no_mount, chroot_mounted_no_mount (chroot into a layer the fresh table shows fully mounted does nothing more), chroot_unmounted_as_mount (otherwise it continues exactly as mount of the chain), allLayer_busy_skipped / allLayer_unmounted_passed / failIfBusy_fails (umount -all: a layer under a child's overlay is skipped without a call, a layer the first reading showed unmounted is passed over, a skipped layer makes the command fail); later_umount_cleans_counterexample (with fix 8d11829 one later umount removes both stacked mounts). The interleaving model is tied to the real code by running two real command instances under a deterministic scheduler.",
    "design_ref": "§4 C20",
    "note": "Known finding no-lock-between-check-and-mount: every non-serial outcome is attributed to it, provided the model predicts exactly that outcome for that schedule (a disagreement between model and code is still reported). A repair needs an inter-process lock (not small). Serialisability of non-interfering schedules is proved only in the form of the per-turn lemmas; a general theorem over all schedules in which the two processes do not overlap is not proved.",
    "technique": "Lean 4 proof (negation by kernel evaluation of concrete schedules; per-turn lemmas by induction on fuel) + scheduled differential runs of two real command instances",
}
