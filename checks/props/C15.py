from common import WORLD_TB, WORLD_ASSUME, SCEN_RULE, gen_guards

PROP = {
    "suites": ["scn-pretend", "scn-mixed", "bin", "binovl"],
    "lean_modules": ["Lc.Props.C15", "Lc.Props.C15Facts"],
    "generate": [gen_guards],
    "leanchecker": True,
    "trusted_base": WORLD_TB + ["tools/extract (go/ast): regenerates Lc/Generated/Guards.lean (mutator call sites and their WriteOK guards, command functions and getArgs, dropped errors) from the source on every run; default deny for what it does not understand"],
    "assumptions": WORLD_ASSUME + [
        "the in-process runs install the pretender exactly as getArgs does (fs.WriteOK = fs.MakePretender(pretend, ...)); argument parsing and pretender installation of cmd/layercake are covered by the binary-level suites bin/binovl: the real binary with -p/--p/-p=true at arbitrary positions inside a private mount namespace with real mounts (base layers: full model comparison incl. the CLI model Lc/Model/Cli.lean; derived layers with a real overlay: oracle only)",
    ],
    "rule": SCEN_RULE + " C15 oracle: every step run with the pretend switch must leave tree and mount table identical and issue no syscall.",
}

META = {
    "text": "Lean theorem pretend_noop: for every command, argument vector, forest, tree, mount table, process assignment and fault/crash setting, a run of the command model with the pretend switch leaves file system and mount table unchanged, attempts no operation and passes no fault point (proved by Hoare-style invariant over every function of the model of package manage, VCs by mvcgen, checked by the kernel). The model is tied to the Go code by differential scenario runs (pretend on 60% of the steps) and the oracle judges the implementation's own before/after observations.",
    "design_ref": "§4 C15",
    "note": "Trusted: Lean kernel, the environment models (Fs, Kernel), the correspondence harness. Argument parsing (Go flag rules, ParseArgsSetFlags, per-command switches and argument counts) is modelled in Lc/Model/Cli.lean and compared with the real binary; no theorem about it yet. Debug printing is not modelled. The call-site facts (every mutator behind WriteOK, every command installs the pretender) are stated in DESIGN.md §4 C15 with their status.",
    "technique": "Lean 4 proof (Hoare-style invariant via Std.Do/mvcgen over the command model) + differential correspondence",
}
