from common import WORLD_TB, WORLD_ASSUME, SCEN_RULE

PROP = {
    "suites": ["scn-directed", "scn-chain", "scn-mount", "scn-mixed", "scn-struct"],
    "lean_modules": ["Lc.Props.C16"],
    "leanchecker": True,
    "trusted_base": WORLD_TB,
    "assumptions": WORLD_ASSUME + [
        "path-layout hypotheses of the Lean theorems (stated explicitly there): the automatic export paths do not lie at/under a layer directory, its ~removed name, the new layer directory or a layerconfig file; the two automatic export paths of one layer are not nested (Apart); in the model a symbolic link may have entries below it, on the real file system it cannot",
        "links_after_mount_partial is stated for makeExportSymlinks (run for every chain layer after the whole chain is mounted); that mountCmd reaches it for every chain layer, and the exactly-when direction of the property, are judged by the scenario oracle on the implementation's own trees",
    ],
    "rule": SCEN_RULE + " C16 oracle: every export entry that is not a symlink before a step is identical after it; after a successful mount/chroot every chain layer's automatic and explicit export entries exist exactly when their source exists and point there (a pre-existing entry with another target or type is the known finding export-entry-foreign-or-stale); after a successful rename/remove no export entry with the old name is left and all other export entries are unchanged.",
}

META = {
    "text": "Lean theorems over the command model, for every tree, mount table and fault/crash/pretend setting: other_layers_untouched / outside_untouched / other_names_untouched (on every exit of removeLayerExportLinks the only changed entries are entries at/under an automatic export path of this layer that was a symlink; they are gone, nothing is replaced; export entries of differently named layers are untouched, by a path.Join lemma for distinct clean names), non_symlink_never_removed + non_symlink_refused + first_non_symlink_refused_exact (a non-link at an automatic export path stays and rename/remove stop with notsymlink before touching anything), links_never_clobber + links_only_add + existing_link_kept + foreign_entry_refused(_exact) (makeSymlinkInDirectory never changes or removes an existing entry, leaves an existing link alone, and fails with EEXIST on a foreign entry), no_old_name_after_remove / no_old_name_after_rename (after a normal non-pretend return no entry exists at the old automatic export paths; complete commands incl. layerconfig rewriting of children), links_after_mount_partial (after makeExportSymlinks returned normally each automatic entry whose source directory existed is a symlink, with exactly that target when nothing was there before and no other directive names the same link). Proved by Hoare-style relational invariants (Std.Do/mvcgen) over the model and pure lemmas about the file-system model; the model is tied to the Go code by differential scenario runs and the oracle judges the implementation's own before/after trees.",
    "design_ref": "§4 C16",
    "note": "Trusted: Lean kernel, the environment models (Fs, Kernel), the correspondence harness. Partial: links_after_mount_partial does not cover a pre-existing entry with another target or type (left as it is by the code: known finding export-entry-foreign-or-stale) nor the converse (no link without source directory) nor the chain iteration of mountCmd; these are checked by the oracle on every scenario step. Path-layout hypotheses of the rename/remove theorems are explicit in the statements.",
    "technique": "Lean 4 proof (Hoare-style relational invariants via Std.Do/mvcgen over the command model + pure lemmas on the Fs model and path.Join) + differential correspondence",
}
