from common import COMMON_TB

PROP = {
    "suites": ["base", "c18"],
    "lean_modules": ["Lc.Props.C18"],
    "leanchecker": True,
    "trusted_base": COMMON_TB + [
        "Lc/Spec/Precedence.lean: my rendering of the documented precedence (doc/layercake_config.adoc and the property statement); it shares only the lexical layer (comment rule, key/value split) with the model",
        "the harness's virtual root: every '/V/' in a case is replaced by a fresh scratch directory before config.Load runs and mapped back afterwards; generated file names contain no '..', so the substitution commutes with path.Clean/Join",
    ],
    "assumptions": [
        "configuration lines are shorter than bufio.Scanner's 64 KiB token limit",
        "no symlinks and no '..' or trailing slash in the names of configuration files (the driver resolves names by path.Clean against the working directory); /etc/layercake.conf does not exist on the checking host",
        "os.Args is not empty",
    ],
    "rule": "structured stream: worlds of 0-6 configuration files (shapes: none, single, linear, self-loop, 2-cycle, rho, missing link, link to a directory, alias spelling of a visited file, relative CONFIGFILE) with every subset of keys, absolute/relative/unclean values, duplicate and empty assignments, comments, ASCII and Unicode spacing, lower/mixed-case and ſ/ı key spellings, CRLF, missing final newline; the first file reached through -config, LAYERCONF, $HOME/.layercake, <exe>/../etc/layercake.conf (absolute and relative argv[0]) with decoy candidates; x -basepath / LAYERROOT combinations. malformed stream (every 8th case): one file of the chain gets an unknown key (with value, empty value, without '='), an empty key or the documentation's misspelt key. A case is trivial when no configuration file is selected; distinct = distinct case JSON without id.",
}

META = {
    "text": "Lean theorems over a statement-by-statement model of config.Load (all full strength, no _partial): load_eq_spec - the model equals an independent precedence specification for every file system, environment, switch combination and fuel, value and error class alike; load_chain_eq_spec - for every acyclic chain of any length (given relationally) Load is the per-key precedence switch > LAYERROOT > first file in chain order > default followed by the path treatment; loop_reported / loop_detected - Load reports a loop exactly when the chain revisits a name; load_terminates - fuel |names present|+1 always suffices (pigeonhole on the visited set); dirs_clean_absolute - on success base, layers, exports and chroot paths are absolute fixed points of path.Clean (path.Clean idempotence proved); unknown_key_error - an unknown key on any non-comment line of a file reached by the chain is an error whatever its value. The model is tied to the Go code by differential runs of config.Load on generated file chains; the implementation's result is judged against the specification.",
    "design_ref": "§4 C18",
    "note": "Trusted: Lean kernel; my rendering of the precedence rules (Lc/Spec/Precedence); path.Clean/Join/Dir models (diffed against the Go library in suite base); the correspondence harness with its /V substitution; duplicate assignments inside one file resolve to the last one (as the code does; the documentation is silent).",
    "technique": "Lean 4 proof (induction over the file chain, pigeonhole on the visited set) + differential correspondence model vs Go",
}
