from common import COMMON_TB

PROP = {
    "suites": ["base", "c12"],
    "lean_modules": ["Lc.Props.C12"],
    "leanchecker": True,
    "trusted_base": COMMON_TB + [
        "Lc/Spec/KernelEscape.lean + KernelRender.lean: my transcription of the kernel's mountinfo rendering (seq_escape octal escaping, field layout; escape sets: paths blank/tab/newline/backslash, source additionally '#', option VALUES additionally ',' but not '=', option NAMES additionally ',' and '=')",
    ],
    "assumptions": [
        "mountinfo lines are shorter than bufio.Scanner's 64 KiB token limit",
        "the kernel escapes at least space, tab, newline and backslash in path fields and additionally ',' in overlay option values; it does NOT escape '=' in option values (seq_show_option escapes the value with \", \\t\\n\\\\\" only, the name additionally with '=')",
    ],
    "rule": "structured stream: random mount tables (1-9 mounts, stacked/nested mountpoints, 0-3 optional fields, overlay options in random order, path elements with spaces/tabs/newlines/backslashes/escape look-alikes; every other overlay directory has a component with one or more raw '=' such as a=b, k=v=w, cake=17.1, which the kernel does not escape) rendered kernel-style; malformed stream: byte mutations of rendered text; plus raw escape strings. A case is non-trivial unless the driver marks it trivial; distinct = distinct case JSON without id.",
}

META = {
    "text": "Lean theorems (Lc/Props/C12.lean, all full, no partial ones): "
            "unescape_mangle (the decoder inverts the kernel's octal escaping for every byte string and every escape set containing the backslash); "
            "mangle_no_sep / mangle_no_sep_fields (escaped text contains no byte of the escape set other than backslash and octal digits: no blank, tab, newline, in option values no ',', in option names no ',' and no '='); "
            "mangle_optEsc_keeps_equals, value_equals_in_text (an '=' in an option VALUE is not escaped: the escaped value has exactly the '=' bytes of the raw value, for every byte string); mangle_optNameEsc_id (a name free of the name escape set is written as it is); "
            "overlay_opts_recovered (for every super-option list - any order, foreign options, repeated keys, any value bytes - parseOverlayOpts of the rendered text yields the last lowerdir/upperdir/workdir; keys contain no ',' and no '=', values may contain '=' freely: the parser cuts at the first '=' only); "
            "option_value_with_equals_roundtrip (for every overlay mount whose mountpoint and lower/upper/work directories are arbitrary byte strings - any number of '=', blanks, commas, backslashes - probeMounts of the kernel's text returns exactly those directories; no condition on '='); "
            "split_at_every_equals_loses_value (witness: a reader that cuts name=value at every '=' - strings.Split for strings.SplitN(part, \"=\", 2) - returns /a for the lowerdir /a=b/c); "
            "probeLine_render (for every well-formed mount and every parser state, reading the rendered line appends exactly the expected entry, updates device table and shadow set; 0..n optional fields, arbitrary bytes in root/mountpoint/source/overlay dirs); "
            "probe_render (whole table: probeMounts(render t) = ok with list = entries t, in order - each entry with the mount id and parent id of its line, which ProbeMounts keeps since fix e546b99 -, and the expected device table; uses scanLines_render: the line scanner returns exactly the rendered lines); "
            "entries_inShadow (the theorem's shadow flags are the Spec's shadowFlags, which the driver's oracle uses); "
            "getMount_last / getMount_recovers (GetMount(mp) returns the entry of the last mount at mp; with pairwise distinct mountpoints every mount is found); "
            "layer_recognised, layerMount_wf, layer_recognised_any_base (a mount at base/layers/x/build is found at exactly that path for every byte string base); "
            "shadow_iff_ancestor (distinct ids, parents listed first: InShadow iff not itself devtmpfs/sysfs and some proper ancestor by parent id is); "
            "sources_recovered (GetMountSources on the parsed table = Spec.expectedSources for every mount of every table); "
            "cr_at_line_end_lost (witness that the one WF restriction on path bytes is needed: a last super-option value ending in CR is truncated by bufio.ScanLines). "
            "The Lean model of ProbeMounts/GetMount/GetMountSources is tied to the Go code by differential runs on generated and mutated mount tables, and the implementation's observation is judged against an independent Lean specification of what the kernel renders.",
    "design_ref": "§4 C12",
    "note": "Trusted: Lean kernel; my transcription of the kernel's mountinfo rendering (Lc/Spec/KernelEscape, KernelRender); the correspondence harness; bufio.Scanner 64 KiB line limit assumed not reached. Well-formedness (Spec.KMount.WF): token fields non-empty without blank/LF/CR, optional fields other than \"-\", at least one super option, keys without \",\" \"=\", all path-like fields arbitrary bytes except that the value of the LAST super option must not end in CR (kernel does not escape CR; line readers strip it).",
    "technique": "Lean 4 proof (induction over byte strings) + differential correspondence model vs Go",
}
