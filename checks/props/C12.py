from common import COMMON_TB

PROP = {
    "suites": ["base", "c12"],
    "lean_modules": ["Lc.Props.C12"],
    "leanchecker": True,
    "trusted_base": COMMON_TB + [
        "Lc/Spec/KernelEscape.lean + KernelRender.lean: my transcription of the kernel's mountinfo rendering (seq_escape octal escaping, field layout)",
    ],
    "assumptions": [
        "mountinfo lines are shorter than bufio.Scanner's 64 KiB token limit",
        "the kernel escapes at least space, tab, newline and backslash in path fields and additionally ',' in overlay option values",
    ],
    "rule": "structured stream: random mount tables (1-9 mounts, stacked/nested mountpoints, 0-3 optional fields, overlay options in random order, path elements with spaces/tabs/newlines/backslashes/escape look-alikes) rendered kernel-style; malformed stream: byte mutations of rendered text; plus raw escape strings. A case is non-trivial unless the driver marks it trivial; distinct = distinct case JSON without id.",
}

META = {
    "text": "Lean theorems: the decoder inverts the kernel's octal escaping for every byte string and every escape set containing the backslash (unescape_mangle); per-line and overlay-option recovery theorems; the Lean model of ProbeMounts/GetMount/GetMountSources is tied to the Go code by differential runs on generated and mutated mount tables, and the implementation's observation is judged against an independent Lean specification of what the kernel renders.",
    "design_ref": "§4 C12",
    "note": "Trusted: Lean kernel; my transcription of the kernel's mountinfo rendering (Lc/Spec/KernelEscape, KernelRender); the correspondence harness; bufio.Scanner 64 KiB line limit assumed not reached. Whole-table theorem status is stated in DESIGN.md §4 C12.",
    "technique": "Lean 4 proof (induction over byte strings) + differential correspondence model vs Go",
}
