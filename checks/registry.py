"""Per-property configuration of ./check (suites, Lean modules, evidence texts)."""

COMMON_TB = [
    "Lean 4.33 kernel (lake build + #print axioms audit; allowed axioms: propext, Classical.choice, Quot.sound)",
    "hand-written Lean model of the Go code, tied to /repo by differential correspondence on every run (harness built from the working tree with -tags verif)",
    "Go standard library (path, strings, strconv, sort, bufio) modelled in Lc/Base and diffed against the real library (suite 'base')",
    "the harness, the lcdriver line protocol and the ./check driver",
]

PROPS = {}

PROPS["C12"] = {
    "suites": ["base", "c12"],
    "lean_modules": ["Lc.Props.C12"],
    "leanchecker": True,
    "trusted_base": COMMON_TB + [
        "Lc/Spec/KernelEscape.lean + KernelRender.lean: my transcription of the kernel's mountinfo rendering (seq_escape octal escaping, field layout)",
    ],
    "assumptions": [
        "mountinfo lines are shorter than bufio.Scanner's 64 KiB token limit",
        "the kernel escapes at least space, tab, newline and backslash in path fields and additionally ',' in overlay option values",
    ],
    "rule": "structured stream: random mount tables (1-9 mounts, stacked/nested mountpoints, 0-3 optional fields, overlay options in random order, path elements with spaces/tabs/newlines/backslashes/escape look-alikes) rendered kernel-style; malformed stream: byte mutations of rendered text; plus raw escape strings. A case is non-trivial unless the driver marks it trivial; distinct = distinct case JSON without id.",
}
