"""Per-property configuration of ./check: one file per property in checks/props/Cxx.py
defining PROP (suites, Lean modules, evidence texts, optional generators) and META
(manifest texts)."""
import importlib, os, sys
_here = os.path.dirname(os.path.abspath(__file__))
sys.path.insert(0, _here)
sys.path.insert(0, os.path.join(_here, "props"))
PROPS = {}
META = {}
for _f in sorted(os.listdir(os.path.join(_here, "props"))):
    if _f.endswith(".py") and _f[0] == "C":
        _m = importlib.import_module(_f[:-3])
        PROPS[_f[:-3]] = _m.PROP
        META[_f[:-3]] = _m.META
