HOOK_COMMITS = ["e40aa97"]

NOT_BUILT = "check not built yet in this round (planned in DESIGN.md §4); not claimed until its theorems and correspondence exist"
NOT_APPLICABLE = {("C%02d" % i): NOT_BUILT for i in range(1, 21)}

META = {}
META["C12"] = {
    "text": "Lean theorems: the decoder inverts the kernel's octal escaping for every byte string and every escape set containing the backslash (unescape_mangle); per-line and overlay-option recovery theorems; the Lean model of ProbeMounts/GetMount/GetMountSources is tied to the Go code by differential runs on generated and mutated mount tables, and the implementation's observation is judged against an independent Lean specification of what the kernel renders.",
    "design_ref": "§4 C12",
    "note": "Trusted: Lean kernel; my transcription of the kernel's mountinfo rendering (Lc/Spec/KernelEscape, KernelRender); the correspondence harness; bufio.Scanner 64 KiB line limit assumed not reached. Whole-table theorem status is stated in DESIGN.md §4 C12.",
    "technique": "Lean 4 proof (induction over byte strings) + differential correspondence model vs Go",
}
