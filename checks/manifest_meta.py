HOOK_COMMITS = ["e40aa97", "33402a7", "efe34e7", "716a4b3", "905d580", "47079e3", "7001989", "aa0edc7", "66a3f16", "0467c1e"]

NOT_BUILT = "check not built yet in this round (planned in DESIGN.md §4); not claimed until its theorems and correspondence exist"
NOT_APPLICABLE = {("C%02d" % i): NOT_BUILT for i in range(1, 21)}

META = {}
